"""C16 -- a tableau's bookkeeping is consistent at every step (structural clauses)."""
from __future__ import annotations

import ast

from .. import astq
from ..model import ClassRef
from ..core import AnalysisError

LEVEL = 'other'
EXPLANATION = (
    "Static analysis (dataflow lint + single-writer / paired-update rules). (R1) loop-overwrite lint over the whole package: inside a loop, an unconditional plain assignment to an attribute of a loop-invariant object whose right-hand side depends on the loop and not on the attribute itself keeps only the last iteration (positive fixture must match); (R2) single writers: history.append only in after_rule_apply, Rule.apply is @final and emits AFTER_RULE_APPLY once after _apply, rule.apply called only from Tableau.step and the two test helpers, the open list is appended/removed only in add_branch/after_close and a branch is listed open iff it is not closed, step numbers recorded are the current step; (R3) Branch.append refuses a closed branch first and branches never lose nodes; (R4) forks extend their parent: Tableau.branch(parent) = parent.copy(parent=parent), BranchCache.after_branch_add copies the parent's entry; (R5) the tree builder accumulates counts over children and gives every branch one leaf. Equality of every count with a recomputed value at every step of every proof is declined. (R6) build_trunk folded for every logic: premises in order, then the conclusion under Negation / undesignated. R2-R5 are folds throughout: current_step, Rule.apply, the listeners, Branch.closed, Tableau.branch, the BranchCache listeners, Tableau.Tree.make over mock tableaux (compared with the tree computed from the branches) and _compute_stats. (R7) node freshness (sa.fresh): in rules, helpers and logic modules no node built by a function is kept in state that outlives the call and is read back (attribute, container slot, global, memoising decorator) -- a kept node can land on two sibling branches, get two addition steps and be counted once per leaf. R7 also treats mutable parameter defaults and module-level tables as state that outlives the call. R4 also imports the AdzHelper._apply fold (C01.R4): every branch a step creates is forked from the branch the rule was applied to.")
TRUSTED = ['CPython ast', 'sa.astq loop/guard helpers']
ASSUMPTIONS = ['EventEmitter delivers events synchronously and in registration order (not analysed)']

TAB = 'pytableaux.proof.tableaux'
COMMON = 'pytableaux.proof.common'
HELPERS = 'pytableaux.proof.helpers'
FIXTURE = '''
def build(tree, children):
    for i, child in enumerate(children):
        tree.total = len(child.nodes) + child.total      # overwritten each iteration
        tree.width += child.width                         # fine: accumulates
        if i == 0:
            tree.first = child                            # fine: conditional
    for child in children:
        child.parent = tree                               # fine: target varies with the loop
    for x in xs:
        self.last = x
        break                                             # fine: leaves the loop
'''


def loop_overwrites(fn):
    """Yield the offending Assign statements of one function."""
    for loop in astq.walk_no_nested(fn):
        if not isinstance(loop, (ast.For, ast.While)):
            continue
        variant = set()
        if isinstance(loop, ast.For):
            variant |= astq.names_in(loop.target)
        for n in astq.walk_no_nested(loop):
            if n is loop:
                continue
            if isinstance(n, (ast.Assign, ast.AugAssign, ast.AnnAssign)):
                for t in (n.targets if isinstance(n, ast.Assign) else [n.target]):
                    for x in astq.flatten_target(t):
                        if isinstance(x, ast.Name):
                            variant.add(x.id)
            elif isinstance(n, ast.NamedExpr):
                variant.add(n.target.id)
            elif isinstance(n, (ast.For, ast.comprehension)):
                variant |= astq.names_in(n.target)
            elif isinstance(n, ast.With):
                for it in n.items:
                    if it.optional_vars is not None:
                        variant |= astq.names_in(it.optional_vars)
        body = loop.body
        for i, st in enumerate(body):          # only unconditional top-level statements of the loop body
            if not isinstance(st, ast.Assign):
                continue
            nxt = body[i + 1] if i + 1 < len(body) else None
            if isinstance(nxt, (ast.Break, ast.Return)):
                continue
            for t in st.targets:
                if not isinstance(t, ast.Attribute):
                    continue
                ch = astq.attr_chain(t)
                if ch is None or ch[0] in variant:
                    continue
                if not (astq.names_in(st.value) & variant):
                    continue
                selfref = any(isinstance(x, ast.Attribute) and astq.attr_chain(x) == ch for x in ast.walk(st.value))
                if selfref:
                    continue
                yield st, '.'.join(ch)


def run(ctx, rep):
    m = ctx.m
    r6(ctx, rep)
    r7(ctx, rep)
    r8(ctx, rep)
    R1 = rep.rule('C16.R1', 'loop-overwrite lint: no accumulator attribute is plainly assigned inside a loop')
    ft = ast.parse(FIXTURE)
    fhits = [tgt for st, tgt in loop_overwrites(ft.body[0])]
    if fhits != ['tree.total']:
        raise AnalysisError(f'C16.R1 fixture: expected exactly [tree.total], the lint matched {fhits}')
    nloops = 0
    for mod, qn, fn in astq.iter_functions(m):
        loops = [n for n in astq.walk_no_nested(fn) if isinstance(n, (ast.For, ast.While))]
        nloops += len(loops)
        hits = list(loop_overwrites(fn))
        for st, tgt in hits:
            rep.instance(R1, ok=False, nontrivial=(mod, qn, tgt))
            rep.finding(R1, f'C16.R1/{mod}:{qn}/{tgt}', m.loc(mod, st), qn,
                        f'`{astq.u(st)}` inside a loop overwrites {tgt} on every iteration (only the last one survives)')
        if loops and not hits:
            rep.instance(R1, ok=True, nontrivial=(mod, qn))
    rep.floor('C16.R1', 'loops scanned', nloops, 200)

    R2 = rep.rule('C16.R2', 'single writers of history and of the open list; apply/emit pairing; step numbers')
    lo = m.func(TAB, 'Tableau.__listen_on')
    rep.consult(m.loc(TAB, lo) + ' Tableau.__listen_on')
    # history: who appends
    for mod, qn, fn in astq.iter_functions(m, 'pytableaux.proof'):
        localnames = {t.id for t, _st in astq.stores(fn, nested=False) if isinstance(t, ast.Name)}
        for c in astq.calls(fn, nested=False):
            nm = astq.call_name(c)
            if isinstance(c.func, ast.Attribute) and isinstance(c.func.value, ast.Name) and c.func.value.id in localnames:
                continue        # a list built by this call, not the tableau's (those are closure variables / attributes)
            if nm == 'history.append':
                ok = (mod, qn) == (TAB, 'Tableau.__listen_on.<locals>.after_rule_apply')
                rep.instance(R2, ok=ok, nontrivial=('history.append', qn))
                if not ok:
                    rep.finding(R2, f'C16.R2/history.append/{mod}:{qn}', m.loc(mod, c), qn, 'the step history is appended outside after_rule_apply')
            if nm in ('opens.append', 'opens.remove', 'opens.add', 'opens.discard', 'opens.clear', 'opens.insert'):
                want = {'opens.append': 'Tableau.__listen_on.<locals>.add_branch', 'opens.remove': 'Tableau.__listen_on.<locals>.after_close'}.get(nm)
                ok = mod == TAB and qn == want
                rep.instance(R2, ok=ok, nontrivial=(nm, qn))
                if not ok:
                    rep.finding(R2, f'C16.R2/{nm}/{mod}:{qn}', m.loc(mod, c), qn, f'`{astq.u(c)}` changes the open-branch list outside add_branch/after_close')
            if nm in ('branches.append', 'branches.remove', 'branches.pop', 'branches.clear', 'branches.insert'):
                ok = mod == TAB and qn == 'Tableau.__listen_on.<locals>.add_branch' and nm == 'branches.append'
                rep.instance(R2, ok=ok, nontrivial=(nm, qn))
                if not ok:
                    rep.finding(R2, f'C16.R2/{nm}/{mod}:{qn}', m.loc(mod, c), qn, f'`{astq.u(c)}` changes the branch list outside add_branch')
    fns = dict(astq.all_functions(m.trees[TAB]))
    ab = fns.get('Tableau.__listen_on.<locals>.add_branch')
    ac = fns.get('Tableau.__listen_on.<locals>.after_close')
    ara = fns.get('Tableau.__listen_on.<locals>.after_rule_apply')
    ana = fns.get('Tableau.__listen_on.<locals>.after_node_add')
    atk = fns.get('Tableau.__listen_on.<locals>.after_tick')
    astq.need(all((ab, ac, ara, ana, atk)), 'Tableau.__listen_on: listener closures not found')
    # (what the listeners record is decided by folding them: fold_listeners below; here only current_step and Rule.apply)
    from ..minieval import Interp as _I, Obj as _O, Raises as _Rs
    cs = astq.getter(m, TAB, 'Tableau.current_step')
    itc = _I({}, where='Tableau.current_step')
    for nhist, built in ((0, False), (0, True), (3, False), (3, True)):
        flags = {'TRUNK_BUILT'} if built else set()
        flagm = type('F', (set,), {'TRUNK_BUILT': 'TRUNK_BUILT'})(flags)
        r = itc.safe(cs, [_O('tableau', history=[0] * nhist, flag=flagm)])
        ok = r == nhist + (1 if built else 0)
        rep.instance(R2, ok=ok, nontrivial=('current_step', nhist, built))
        if not ok:
            rep.finding(R2, f'C16.R2/current_step/{nhist}/{built}', m.loc(TAB, cs), 'Tableau.current_step', f'with {nhist} history entries and trunk built={built} gives {r!r}, expected {nhist + (1 if built else 0)}')
    ra = m.func(TAB, 'Rule.apply')
    ri = m.func(TAB, 'Rule.__init__')
    rep.consult(m.loc(TAB, ra) + ' Rule.apply', m.loc(TAB, ri) + ' Rule.__init__')
    # the constructor and apply() folded together over a small event emitter, for both values of `nolock`: whatever is done
    # inline and whatever through listeners registered at construction, one application announces BEFORE_APPLY, runs _apply,
    # announces AFTER_APPLY (helpers and the rule's own history hear it) and then tells the tableau once, AFTER_RULE_APPLY
    import collections as _col

    class _State(int):
        INIT, LOCKED = 1, 2

        def __or__(s_, o):
            return _State(int(s_) | int(o))
    for nolock in (False, True):
        log = []

        class CM:
            def __enter__(s_):
                log.append('timer-on')

            def __exit__(s_, *a):
                log.append('timer-off')
        listeners = _col.defaultdict(list)

        def rule_emit(ev, *a):
            log.append(('rule-emit', ev, a))
            for cb in list(listeners[ev]):
                cb(*a)

        class HelperM:
            def __init__(s_, rule_):
                rule_.on('AFTER_APPLY', lambda t: log.append(('helper-hears', t)))
        tab = _O('tableau', emit=lambda ev, *a: log.append(('tableau-emit', ev, a)), once=lambda ev, cb: log.append(('tableau-once', ev)),
                 on=lambda ev, cb: log.append(('tableau-on', ev)))
        rule = _O('rule', __srcclass__=(m, ClassRef(TAB, 'Rule')), emit=rule_emit, on=lambda ev, cb: listeners[ev].append(cb),
                  once=lambda ev, cb: listeners[ev].append(cb), _apply=lambda t: log.append(('_apply', t)), defaults=dict(nolock=False),
                  timer_names=('search', 'apply'), Helpers=(HelperM,), name='RuleM')

        class EventsM:
            BEFORE_APPLY, AFTER_APPLY = 'BEFORE_APPLY', 'AFTER_APPLY'

            def __iter__(s_):
                return iter(('BEFORE_APPLY', 'AFTER_APPLY'))
        ita = _I(dict(Rule=_O('Rule', Events=EventsM(), State=_State),
                      Tableau=_O('Tableau', Events=_O('Events', AFTER_RULE_APPLY='AFTER_RULE_APPLY', AFTER_BRANCH_ADD='AFTER_BRANCH_ADD')),
                      super=lambda *a: _O('super', __init__=lambda *x, **k: None), MapProxy=dict, for_defaults=lambda d, o: {**d, **o},
                      StopWatch=CM, SeqCover=lambda d: d, deque=_col.deque), where='Rule.__init__ / Rule.apply')
        r0 = ita.safe(ri, [rule, tab], dict(nolock=nolock))
        if isinstance(r0, _Rs):
            raise AnalysisError(f'Rule.__init__ does not fold: {r0!r}')
        del log[:]
        r = ita.safe(ra, [rule, 'TARGET'])
        core = [x for x in log if isinstance(x, tuple)]
        pos = lambda x: core.index(x) if x in core else -1
        told = [x for x in core if x[0] == 'tableau-emit']
        ok = not isinstance(r, _Rs) and 'final' in astq.decorators(ra) and told == [('tableau-emit', 'AFTER_RULE_APPLY', ('TARGET',))] and \
            0 <= pos(('rule-emit', 'BEFORE_APPLY', ('TARGET',))) < pos(('_apply', 'TARGET')) < pos(('rule-emit', 'AFTER_APPLY', ('TARGET',))) < \
            pos(('helper-hears', 'TARGET')) < pos(told[0]) and list(getattr(rule, 'history', ())) == ['TARGET']
        rep.instance(R2, ok=ok, sample=dict(sequence=[x[:2] for x in core], nolock=nolock), nontrivial=('Rule.apply', nolock))
        if not ok:
            rep.finding(R2, f'C16.R2/Rule.apply/nolock={nolock}', m.loc(TAB, ra), 'Rule.apply',
                        f'with nolock={nolock}, one application is not the @final BEFORE_APPLY -> _apply -> AFTER_APPLY (helpers, rule history) -> AFTER_RULE_APPLY '
                        f'to the tableau, once, on the target (observed {[x[:2] for x in core]}, rule history {list(getattr(rule, "history", ()))!r}, result {r!r})')
    allowed_apply = {(TAB, 'Tableau.step'), (TAB, 'Rule.test'), ('pytableaux.proof', 'RuleMeta.induce_branching')}
    for mod, qn, fn in astq.iter_functions(m):
        if mod.startswith('pytableaux.web') or mod.startswith('pytableaux.tools.doc'):
            continue
        for c in astq.calls(fn, nested=False):
            nm = astq.call_name(c)
            if nm.endswith('rule.apply') or nm == 'rule.apply':
                ok = (mod, qn) in allowed_apply
                rep.instance(R2, ok=ok, nontrivial=('rule.apply', mod, qn))
                if not ok:
                    rep.finding(R2, f'C16.R2/rule.apply/{mod}:{qn}', m.loc(mod, c), qn, 'a rule is applied outside Tableau.step (the step would not be recorded/limited)')

    fold_listeners(ctx, rep, R2, ab, ac, ana, atk, ara)

    R3 = rep.rule('C16.R3', 'branches only grow: closed branches refuse nodes first; no removal from a branch\'s node sequence')
    from . import c06 as _c06
    ok = _c06.closed_guard_ok(ctx)
    rep.instance(R3, ok=ok, nontrivial='closed-guard')
    if not ok:
        rep.finding(R3, 'C16.R3/Branch.append/closed-guard', m.relfile(COMMON), 'Branch.append', 'does not refuse a closed branch before changing anything (folded)')
    cl = astq.getter(m, COMMON, 'Branch.closed')
    CN = type('ClosureNode', (dict,), {})
    itb = _I(dict(ClosureNode=CN, isinstance=isinstance, bool=bool, len=len), where='Branch.closed')
    for nodes, want in (([], False), ([{'sentence': 1}], False), ([{'sentence': 1}, CN()], True), ([CN(), {'sentence': 1}], False)):
        r = itb.safe(cl, [list(nodes)])
        ok = r is want
        rep.instance(R3, ok=ok, nontrivial=('closed-property', len(nodes), want))
        if not ok:
            rep.finding(R3, f'C16.R3/Branch.closed/{len(nodes)}-{want}', m.loc(COMMON, cl), 'Branch.closed', f'on nodes {nodes!r} gives {r!r}, expected {want} (closed = the last node is the closure node)')
    for mod, qn, fn, c in astq.method_calls_on_attr(m, '_nodes', ('remove', 'pop', 'clear', 'discard', 'insert', 'sort', 'reverse', '__delitem__', '__setitem__')):
        rep.instance(R3, ok=False, nontrivial=('_nodes', qn))
        rep.finding(R3, f'C16.R3/_nodes/{mod}:{qn}', m.loc(mod, c), qn, f'`{astq.u(c)}` removes or reorders nodes of a branch')
    for mod, qn, fn, t, st in astq.attr_stores(m, '_nodes'):
        ok = mod == COMMON and qn in ('Branch.__init__', 'Branch.copy')
        rep.instance(R3, ok=ok, nontrivial=('_nodes-store', qn))
        if not ok:
            rep.finding(R3, f'C16.R3/_nodes-store/{mod}:{qn}', m.loc(mod, st), qn, 'replaces a branch\'s node sequence')

    R4 = rep.rule('C16.R4', 'forks extend their parent: Tableau.branch copies the parent; per-branch caches copy the parent\'s entry')
    # which branch a fork's parent *is*: the rule engine's AdzHelper._apply folded with Tableau.branch (C01.R4) -- every branch a step
    # creates is forked from the branch the rule was applied to (not from a sibling created in the same step) and extends its nodes
    from ..core import Report as _Report
    from . import c01 as _c01
    _sub = _Report('C01', rep.tier, rep.repo)
    _c01.r4(ctx, _sub)
    _n = 0
    for _f in _sub.findings:
        if 'AdzHelper._apply' in _f.key:
            _n += 1
            rep.instance(R4, ok=False, nontrivial=_f.key)
            rep.finding(R4, _f.key.replace('C01.R4/', 'C16.R4/C01.R4/', 1), _f.where, _f.construct, _f.msg + ' -- the recorded parent of a new branch is the branch the rule was applied to')
    for _ in range(max(0, 6 - _n)):
        rep.instance(R4, ok=True)
    rep.consulted |= _sub.consulted
    tb = m.func(TAB, 'Tableau.branch')
    rep.consult(m.loc(TAB, tb) + ' Tableau.branch')
    added = []

    class PB:
        def __init__(s_, parent=None):
            s_.parent, s_.copied = parent, False

        def copy(s_, parent=None, **kw):
            b_ = PB(parent)
            b_.copied = s_
            return b_
    tabm = _O('tableau', __srcclass__=(m, ClassRef(TAB, 'Tableau')), add=lambda b_: added.append(b_))
    itt = _I(dict(Branch=PB), where='Tableau.branch')
    par = PB()
    r = itt.safe(tb, [tabm], dict(parent=par))
    ok = isinstance(r, PB) and r.copied is par and r.parent is par and added == [r]
    rep.instance(R4, ok=ok, nontrivial='Tableau.branch')
    if not ok:
        rep.finding(R4, 'C16.R4/Tableau.branch', m.loc(TAB, tb), 'Tableau.branch', f'a fork is not a copy of the parent (with parent set) registered once through add(): got {r!r}, added {added}')
    del added[:]
    r = itt.safe(tb, [tabm])
    ok = isinstance(r, PB) and r.copied is False and r.parent is None and added == [r]
    rep.instance(R4, ok=ok, nontrivial='Tableau.branch-root')
    if not ok:
        rep.finding(R4, 'C16.R4/Tableau.branch/root', m.loc(TAB, tb), 'Tableau.branch', f'a root branch is not a fresh Branch registered through add(): got {r!r}')
    bc = dict(astq.all_functions(m.trees[HELPERS]))
    import copy as _copy
    for cname, deep_ in (('BranchCache', False), ('BranchDictCache', True)):
        aba = bc.get(f'{cname}.listen_on.<locals>.after_branch_add')
        astq.need(aba is not None, f'{cname}.listen_on.after_branch_add not found')
        rep.consult(m.loc(HELPERS, aba) + f' {cname}.after_branch_add')

        class Cache(dict):
            valuetype = dict if deep_ else set
        cache = Cache()
        parent = _O('parent-branch', parent=None)
        child = _O('child-branch', parent=parent)
        orphan = _O('root-branch', parent=None)
        cache[parent] = {'k': {1, 2}} if deep_ else {1, 2}
        ith = _I(dict(self=cache, copy=_copy.copy), where=f'{cname}.after_branch_add')
        if deep_:
            # BranchDictCache runs the base listener first (super().listen_on()): the entry exists as a shallow copy
            base = bc.get('BranchCache.listen_on.<locals>.after_branch_add')
            ith.safe(base, [child])
        r1_ = ith.safe(aba, [child])
        if deep_:
            ith.safe(bc.get('BranchCache.listen_on.<locals>.after_branch_add'), [orphan])
        r2_ = ith.safe(aba, [orphan])
        probs = []
        if isinstance(r1_, _Rs) or isinstance(r2_, _Rs):
            probs.append(f'raises {r1_!r} {r2_!r}')
        else:
            if cache.get(child) != cache[parent] or cache.get(child) is cache[parent]:
                probs.append(f'the fork\'s entry {cache.get(child)!r} is not an own copy of the parent\'s {cache[parent]!r}')
            if deep_ and cache.get(child) and cache[child]['k'] is cache[parent]['k']:
                probs.append('the values of the fork\'s entry are shared with the parent')
            if cache.get(orphan) != Cache.valuetype():
                probs.append(f'a root branch starts with {cache.get(orphan)!r}, not an empty {Cache.valuetype.__name__}')
        rep.instance(R4, ok=not probs, nontrivial=f'{cname}.after_branch_add')
        for p_ in probs:
            rep.finding(R4, f'C16.R4/{cname}.after_branch_add/{p_[:40]}', m.loc(HELPERS, aba), f'{cname}.after_branch_add', p_)

    R5 = rep.rule('C16.R5', 'tree builder: counts accumulate over children, leaves are exactly single-branch structures')
    from .. import treefold
    res, cons = treefold.fold_tree(m)
    rep.consult(*cons)
    for ok, case, detail in res:
        rep.instance(R5, ok=ok, nontrivial=('tree', case))
        if not ok:
            rep.finding(R5, f'C16.R5/tree/{case}', cons[0].split(' ')[0], 'Tableau.Tree.make', f'{case}: {detail}')
    rep.floor('C16.R5', 'tree scenarios', len(res), 6)
    # statistics folded: the counts equal the observable ones
    st = m.func(TAB, 'Tableau._compute_stats')
    rep.consult(m.loc(TAB, st) + ' Tableau._compute_stats')
    from ..minieval import Interp, Obj, Raises

    class TabM(list):
        pass
    tabm = TabM(['b0', 'b1', 'b2'])
    tabm.open = ['b0']
    tabm.history = [Obj('step', duration=Obj('ctr', value=2)), Obj('step', duration=Obj('ctr', value=3))]
    tabm.tree = Obj('tree', distinct_nodes=17)
    sw = lambda v: Obj('sw', elapsed_ms=lambda: v)
    tabm.timers = Obj('timers', build=sw(1), trunk=sw(2), tree=sw(3), models=sw(4))
    tabm.rules = [Obj('rule', timers={'search': sw(10), 'apply': sw(20)})]
    tabm._result_word = lambda: 'WORD'
    it = Interp(dict(sum=sum, AttributeError=AttributeError), where='Tableau._compute_stats')
    r = it.safe(st, [tabm])
    want = dict(branches=3, open_branches=1, closed_branches=2, steps=2, distinct_nodes=17, result='WORD', rules_duration_ms=5)
    ok = isinstance(r, dict) and all(r.get(k) == v for k, v in want.items())
    rep.instance(R5, ok=ok, nontrivial='_compute_stats')
    if not ok:
        rep.finding(R5, 'C16.R5/_compute_stats', m.loc(TAB, st), 'Tableau._compute_stats',
                    f'statistics differ from the observable counts: got {r if not isinstance(r, dict) else {k: r.get(k) for k in want}}, expected {want}')


def fold_listeners(ctx, rep, R2, ab, ac, ana, atk, ara):
    """Fold the event-listener closures of Tableau.__listen_on over mock branches: what they record
    (stat table, open list, branch list, history) must be exactly what happened."""
    from ..minieval import Interp, Obj, Raises
    m = ctx.m
    StatKey = Obj('StatKey', STEP_ADDED='STEP_ADDED', INDEX='INDEX', PARENT='PARENT', STEP_CLOSED='STEP_CLOSED', FLAGS='FLAGS',
                  STEP_TICKED='STEP_TICKED', NODES='NODES')
    Events = Obj('Events', AFTER_BRANCH_ADD='AFTER_BRANCH_ADD', AFTER_BRANCH_CLOSE='AFTER_BRANCH_CLOSE', AFTER_NODE_ADD='AFTER_NODE_ADD',
                 AFTER_NODE_TICK='AFTER_NODE_TICK')

    class Tab:
        def __init__(self):
            self.branches, self.emitted, self.current_step = [], [], 7
            self.flag = Obj('flag', CLOSED=2, TICKED=1, STARTED=512, TIMING_INACCURATE=64)
            self.BranchStat = lambda d: dict(d)

        def __contains__(self, b):
            return b in self.branches

        def emit(self, ev, *a):
            self.emitted.append((ev, a))

    class Br:
        def __init__(self, name, parent=None, origin=None, closed=False, nodes=()):
            self.name, self.parent, self.origin, self.closed, self.nodes = name, parent, origin or self, closed, list(nodes)
            self.id = name
            self.listeners = None

        def on(self, listeners):
            self.listeners = listeners

        def __len__(self):
            return len(self.nodes)

        def __bool__(self):
            return True

        def __iter__(self):
            return iter(self.nodes)

        def __repr__(self):
            return self.name
    import collections as _coll
    root = Br('root', nodes=['n0', 'n1', 'n2'])
    mid = Br('mid', parent=root, origin=root)
    leaf = Br('leaf', parent=mid, origin=root)
    closed = Br('closed', parent=root, origin=root, closed=True)
    # (the number of branches already on the tableau and the number of nodes already on the arriving branch vary independently)
    for br, npre in ((root, 0), (root, 2), (Br('bare-root'), 0), (mid, 2), (leaf, 2), (closed, 2)):
        tab = Tab()
        stat, opens, branches = {}, [], tab.branches
        node_adds = []
        pre = [Br(f'x{i}') for i in range(npre)]
        branches.extend(pre)
        it = Interp(dict(self=tab, stat=stat, opens=opens, branches=branches, Tableau=Obj('Tableau', StatKey=StatKey, Events=Events),
                         Emsg=Obj('Emsg', DuplicateValue=lambda *a: 'DuplicateValueError'), deque=_coll.deque,
                         EMPTY_SET=frozenset(), branch_listeners='LISTENERS',
                         after_node_add=lambda node, branch: node_adds.append((node, branch))), where='Tableau.__listen_on.add_branch')
        r = it.safe(ab, [br])
        probs = []
        if isinstance(r, Raises):
            probs.append(f'raises {r.text}')
        else:
            rec = stat.get(br)
            want = {'STEP_ADDED': 7, 'INDEX': npre, 'PARENT': br.parent}
            if rec != want:
                probs.append(f'recorded stat {rec} differs from step/index/parent {want}')
            if (br in opens) != (not br.closed):
                probs.append(f'open list {opens} (branch closed={br.closed})')
            if branches != pre + [br]:
                probs.append(f'branch list {branches}')
            if [e for e in tab.emitted if e[0] == 'AFTER_BRANCH_ADD'] != [('AFTER_BRANCH_ADD', (br,))]:
                probs.append(f'events {tab.emitted}')
            if br.listeners != 'LISTENERS':
                probs.append('branch listeners not attached')
            exp_adds = [(n, br) for n in br.nodes] if br.parent is None else []
            if node_adds != exp_adds:
                probs.append(f'pre-existing nodes announced {node_adds}, expected {exp_adds}')
        rep.instance(R2, ok=not probs, sample=dict(fold='add_branch', branch=br.name), nontrivial=('fold-add_branch', br.name, npre))
        for p_ in probs:
            rep.finding(R2, f'C16.R2/add_branch/fold/{br.name}/{p_[:30]}', m.loc(TAB, ab), 'add_branch', f'branch {br.name} (parent {br.parent}, {len(br.nodes)} nodes) added as branch number {npre + 1}: {p_}')
        # duplicate registration is refused without effect
        tab2 = Tab()
        tab2.branches.append(br)
        st2, op2 = {}, []
        it2 = Interp(dict(self=tab2, stat=st2, opens=op2, branches=tab2.branches, Tableau=Obj('Tableau', StatKey=StatKey, Events=Events),
                          Emsg=Obj('Emsg', DuplicateValue=lambda *a: 'DuplicateValueError'), deque=lambda it_, maxlen=None: list(it_),
                          EMPTY_SET=frozenset(), branch_listeners='L', after_node_add=lambda *a: None), where='add_branch')
        r = it2.safe(ab, [br])
        ok = isinstance(r, Raises) and not st2 and not op2 and tab2.branches == [br]
        rep.instance(R2, ok=ok, nontrivial=('fold-add_branch-dup', br.name))
        if not ok:
            rep.finding(R2, f'C16.R2/add_branch/fold/duplicate/{br.name}', m.loc(TAB, ab), 'add_branch', f'registering a branch twice is not refused without effect: {r!r}')
    # after_close
    tab = Tab()
    b1, b2 = Br('b1'), Br('b2')
    stat = {b1: {'FLAGS': 0}, b2: {'FLAGS': 0}}
    opens = [b1, b2]
    it = Interp(dict(self=tab, stat=stat, opens=opens, Tableau=Obj('Tableau', StatKey=StatKey, Events=Events)), where='after_close')
    r = it.safe(ac, [b1])
    ok = not isinstance(r, Raises) and opens == [b2] and stat[b1].get('STEP_CLOSED') == 7 and stat[b1]['FLAGS'] == 2 and stat[b2] == {'FLAGS': 0} \
        and tab.emitted == [('AFTER_BRANCH_CLOSE', (b1,))]
    rep.instance(R2, ok=ok, nontrivial='fold-after_close')
    if not ok:
        rep.finding(R2, 'C16.R2/after_close/fold', m.loc(TAB, ac), 'after_close', f'closing b1: open list {opens}, stats {stat}, events {tab.emitted}, result {r!r}')
    # after_node_add / after_tick
    for fn, key, flagval, ev in ((ana, 'STEP_ADDED', None, 'AFTER_NODE_ADD'), (atk, 'STEP_TICKED', 1, 'AFTER_NODE_TICK')):
        tab = Tab()
        nstat = {'FLAGS': 0}
        bstat = Obj('bstat', node=lambda node: nstat)
        node = Obj('node')
        it = Interp(dict(self=tab, stat={b1: bstat}, Tableau=Obj('Tableau', StatKey=StatKey, Events=Events)), where=fn.name)
        r = it.safe(fn, [node, b1])
        ok = not isinstance(r, Raises) and nstat.get(key) == 7 and tab.emitted == [(ev, (node, b1))] and (flagval is None or nstat['FLAGS'] == flagval) \
            and (key != 'STEP_ADDED' or getattr(node, 'step', None) == 7)
        rep.instance(R2, ok=ok, nontrivial=f'fold-{fn.name}')
        if not ok:
            rep.finding(R2, f'C16.R2/{fn.name}/fold', m.loc(TAB, fn), fn.name, f'records {nstat}, events {tab.emitted}, result {r!r}')
    # after_rule_apply: exactly one history entry, STARTED set
    for has_entry in (True, False):
        tab = Tab()
        tab.flag = 0
        history = []
        tgt = Obj('target', rule='RULE')
        if has_entry:
            tgt._entry = 'ENTRY'
        FlagNS = Obj('flagns', STARTED=512, TIMING_INACCURATE=64)

        class F(int):
            STARTED, TIMING_INACCURATE = 512, 64

            def __or__(self, o):
                return F(int(self) | int(o))
        tab.flag = F(0)
        it = Interp(dict(self=tab, history=history, Tableau=Obj('Tableau', StepEntry=lambda *a: ('StepEntry',) + a), Counter=lambda: 'CTR'), where='after_rule_apply')
        r = it.safe(ara, [tgt])
        ok = not isinstance(r, Raises) and len(history) == 1 and (history[0] == 'ENTRY' if has_entry else history[0][:3] == ('StepEntry', 'RULE', tgt)) \
            and int(tab.flag) & 512
        rep.instance(R2, ok=ok, nontrivial=('fold-after_rule_apply', has_entry))
        if not ok:
            rep.finding(R2, f'C16.R2/after_rule_apply/fold/{has_entry}', m.loc(TAB, ara), 'after_rule_apply', f'history {history}, flag {tab.flag}, result {r!r}')


def r6(ctx, rep):
    "trunk content: premises in order, then the conclusion negated (by the Negation operator, `~`) or undesignated"
    from .. import trunk
    m = ctx.m
    R6 = rep.rule('C16.R6', 'trunk (build_trunk folded for every logic): exactly the premises in order, then the conclusion under Negation / '
                            'undesignated, all at the root world')
    n = 0
    for lg in ctx.lgs:
        owner, fn, nodes = trunk.trunk_of(m, lg.systemcls, lg.modal)
        fam = trunk.classify(nodes, lg.modal)
        n += 1
        rep.instance(R6, ok=fam is not None, nontrivial=lg.name)
        rep.consult(m.floc(fn))
        if fam is None:
            rep.finding(R6, f'C16.R6/{lg.name}/trunk', m.floc(fn), f'{lg.name}.System.build_trunk',
                        f'trunk for premises P1,P2 and conclusion C is {nodes}: not (P1+,P2+,C-) nor (P1,P2,~C) at the root world')
    rep.floor('C16.R6', 'logics', n, 57)


def r7(ctx, rep):
    """Node freshness (sa.fresh): what a rule or helper adds is built during the application."""
    from .. import fresh
    m = ctx.m
    R7 = rep.rule('C16.R7', 'node freshness: in the rules, helpers and logic modules no node built by a function is kept in state that outlives the call '
                            '(attribute, container slot, global, memoising decorator) -- a kept node can land on two sibling branches, gets two addition '
                            'steps and is counted once per leaf by the finished tree')
    mods = [x for x in sorted(m.trees) if x in ('pytableaux.proof.helpers', 'pytableaux.proof.rules', 'pytableaux.proof.tableaux', 'pytableaux.proof')
            or x.startswith('pytableaux.logics.')]
    sites, nfn, nbuilds, ctors = fresh.kept_nodes(m, mods)
    for mod, qn, st, why in sites:
        rep.instance(R7, ok=False, nontrivial=(mod, qn, astq.u(st)[:60]))
        rep.finding(R7, f'C16.R7/{mod}:{qn}', m.loc(mod, st), qn, why)
    MEMO = ('cached_property', 'lru_cache', 'cache', 'lazy', 'memoize', 'memoized')
    ctorset = set(ctors)
    for mod in mods:
        for qn, fn in astq.all_functions(m.trees[mod]):
            if not any(isinstance(c, ast.Call) and fresh.builds_node(c, ctorset, set()) for c in astq.walk_no_nested(fn)):
                continue
            rep.consult(f'{m.loc(mod, fn)} {qn}')
            bad = [astq.u(d) for d in fn.decorator_list if any(x in astq.u(d).split('(')[0].split('.') for x in MEMO)]
            rep.instance(R7, ok=not bad, nontrivial=(mod, qn))
            for d in bad:
                rep.finding(R7, f'C16.R7/{mod}:{qn}/memoised', m.loc(mod, fn), qn, f'`@{d}` memoises a function that builds a node')
    rep.floor('C16.R7', 'functions building nodes', nfn, 40)
    rep.floor('C16.R7', 'node constructors', len(ctors), 15)


def r8(ctx, rep):
    """`Tableau.open` is a linqset: "the open view lists exactly the unclosed branches" also means that its positional reads
    (open[i], open[-k], open.index(b)) answer by its contents.  The black-box read pass of the linked ordered set on
    containers of 5-7 members, after removals (closing a branch removes it), is imported from sa.ordset (C18.R8)."""
    from .. import ordset
    m = ctx.m
    R8 = rep.rule('C16.R8', 'the open view answers positional reads by its contents: tools/linked.linqset (the type of Tableau.open) rebuilt from source, every index, '
                            'negative index and index() on sets of 5-7 members, also after removals, agree with the list model')
    res, cons = ordset.fold_linqset_reads(m)
    rep.consult(*cons)
    for ok, op, case, detail in res:
        rep.instance(R8, ok=ok, nontrivial=case)
        if not ok:
            rep.finding(R8, f'C16.R8/{case}', m.relfile('pytableaux.tools.linked'), 'linqset', f'{case}: {detail}')
    rep.floor('C16.R8', 'read cases', len(res), 9)
