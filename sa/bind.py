"""MRO-bound mock objects: a Python class whose methods are the *source* definitions found through a repository
class's MRO, interpreted by minieval on demand (super() included).  The checker builds the instance state by hand
and then calls methods on it; everything a method reaches through `self` is folded from source as well."""
from __future__ import annotations

import ast

from .core import AnalysisError
from .minieval import Interp, Raised
from .model import ClassRef, FuncRef, Model

SKIP = {'__new__', '__init_subclass__', '__class_getitem__', '__slots__', '__init__', '__repr__', '__str__', '__hash__', '__eq__',
        '__getattr__', '__setattr__', '__delattr__', '__reduce__', '__copy__', '__deepcopy__'}
PROPS = ('property', 'lazy.prop', 'cached_property', 'abstractproperty')


def bound_class(m: Model, it: Interp, cls: ClassRef, base=object, only=None, consulted: set | None = None, extra_ns=None):
    """Returns a Python class (subclass of `base`) carrying one wrapper per function reachable through cls's MRO."""
    names = {}
    for c in m.mro(cls):
        try:
            ns = m.clsns(c)
        except Exception:
            continue
        for n in ns:
            if n in names or n in SKIP or (only is not None and n not in only):
                continue
            v = m.force(ns[n]) if hasattr(m, 'force') else ns[n]
            if isinstance(v, FuncRef):
                names[n] = v

    def invoke(self_, name, args, kw, after=None):
        fn, owner = m.method(cls, name, after)
        if not isinstance(fn, FuncRef):
            raise Raised(f'AttributeError {name}')
        if consulted is not None:
            consulted.add(m.floc(fn) + f' {fn.qualname}')

        class Sup:
            def __getattr__(s_, n):
                return lambda *a, **k: invoke(self_, n, list(a), k, after=owner)
        old = it.g.get('super')
        it.g['super'] = lambda *a: Sup()
        try:
            return it.call(fn.node, [self_, *args], kw)
        finally:
            it.g['super'] = old
    ns = dict(extra_ns or {})
    for n, fref in names.items():
        decos = [ast.unparse(d) for d in fref.node.decorator_list]
        if any(d.split('(')[0] in PROPS or d.endswith('.setter') for d in decos):
            if any(d.endswith('.setter') for d in decos):
                continue
            ns[n] = property((lambda n: (lambda s_: invoke(s_, n, [], {})))(n))
        elif 'staticmethod' in decos:
            ns[n] = staticmethod((lambda fref: (lambda *a, **k: it.call(fref.node, list(a), k)))(fref))
        elif 'classmethod' in decos:
            continue
        else:
            ns[n] = (lambda n: (lambda s_, *a, **k: invoke(s_, n, list(a), k)))(n)
    ns['_invoke'] = invoke
    return type(f'Bound_{cls.qualname.replace(".", "_")}', (base,), ns)
