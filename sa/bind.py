"""MRO-bound mock objects: a Python class whose methods are the *source* definitions found through a repository
class's MRO, interpreted by minieval on demand (super() included).  The checker builds the instance state by hand
and then calls methods on it; everything a method reaches through `self` is folded from source as well.  Methods
the repository inherits from outside (collections.abc mixins) come from the real Python `base` classes."""
from __future__ import annotations

import ast

from .core import AnalysisError
from .minieval import Interp, Raised
from .model import ClassRef, FuncRef, Model

SKIP = {'__new__', '__init_subclass__', '__class_getitem__', '__slots__', '__init__', '__repr__', '__str__', '__hash__', '__eq__',
        '__getattr__', '__setattr__', '__delattr__', '__reduce__', '__copy__', '__deepcopy__'}
PROPS = ('property', 'lazy.prop', 'cached_property', 'abstractproperty')


def bound_class(m: Model, it: Interp, cls: ClassRef, base=object, only=None, consulted: set | None = None, extra_ns=None,
                with_init=False, with_eq=False, exclude=(), apply_decorators=()):
    """Returns a Python class (subclass of `base`) carrying one wrapper per function reachable through cls's MRO."""
    skip = set(SKIP)
    if with_init:
        skip.discard('__init__')
    if with_eq:
        skip -= {'__eq__', '__hash__'}
    names = {}
    for c in m.mro(cls):
        try:
            ns = m.clsns(c)
        except Exception:
            continue
        for n in ns:
            if n in names or n in skip or n in exclude or (only is not None and n not in only):
                continue
            try:
                v = m.force(ns[n])
            except Exception:
                continue
            if isinstance(v, FuncRef):
                names[n] = v
    bases = base if isinstance(base, tuple) else (base,)
    holder = {}

    resolved = {}

    def invoke(self_, name, args, kw, after=None):
        key = (name, after)
        if key not in resolved:
            fn, owner = m.method(cls, name, after)
            resolved[key] = (fn, owner)
            if isinstance(fn, FuncRef) and consulted is not None:
                consulted.add(m.floc(fn) + f' {fn.qualname}')
        fn, owner = resolved[key]
        if not isinstance(fn, FuncRef):
            # inherited from outside the repository: the real base class's implementation
            for b in bases:
                if hasattr(b, name):
                    return getattr(b, name)(self_, *args, **kw)
            raise Raised(f'AttributeError {name}')

        class Sup:
            def __getattribute__(s_, n):
                return lambda *a, **k: invoke(self_, n, list(a), k, after=owner)
        old = it.g.get('super')
        it.g['super'] = lambda *a: Sup()
        try:
            return it.call(fn.node, [self_, *args], kw)
        finally:
            it.g['super'] = old
    ns = {}
    for n, fref in names.items():
        decos = [ast.unparse(d) for d in fref.node.decorator_list]
        if any(d.split('(')[0] in PROPS or d.endswith('.setter') for d in decos):
            if any(d.endswith('.setter') for d in decos):
                continue
            ns[n] = property((lambda n: (lambda s_: invoke(s_, n, [], {})))(n))
        elif 'staticmethod' in decos:
            ns[n] = staticmethod((lambda fref: (lambda *a, **k: it.call(fref.node, list(a), k)))(fref))
        elif 'classmethod' in decos:
            continue
        else:
            isgen = any(isinstance(x, (ast.Yield, ast.YieldFrom)) for x in ast.walk(fref.node))
            if isgen:
                def gen(s_, *a, n=n, **k):
                    saved, it.yields = it.yields, []
                    try:
                        invoke(s_, n, list(a), k)
                        return iter(list(it.yields))
                    finally:
                        it.yields = saved
                ns[n] = gen
            else:
                ns[n] = (lambda n: (lambda s_, *a, **k: invoke(s_, n, list(a), k)))(n)
            # decorators that are plain functions of the class's module (e.g. a locking guard) are folded and applied
            for d in reversed(decos):
                dn = d.split('(')[0]
                if dn in apply_decorators:
                    deco = next((st for st in m.trees[fref.module].body if isinstance(st, ast.FunctionDef) and st.name == dn), None)
                    if deco is None and fref.owner is not None:
                        # a decorator defined in the class body itself (and deleted at the end of it)
                        try:
                            deco = next((st for st in m.clsdef(fref.owner).body if isinstance(st, ast.FunctionDef) and st.name == dn), None)
                        except Exception:
                            deco = None
                    if deco is None:
                        raise AnalysisError(f'decorator {dn} not found in {fref.module}')
                    ns[n] = it.call(deco, [ns[n]])
    ns.update(extra_ns or {})
    ns['_invoke'] = invoke
    ns['__bound_methods__'] = tuple(sorted(names))
    if with_eq and '__eq__' in ns and '__hash__' not in ns:
        ns['__hash__'] = None
    C = type(f'Bound_{cls.qualname.replace(".", "_")}', bases, ns)
    holder['cls'] = C
    return C


_classes = {}


def make_self(m: Model, it: Interp, cls: ClassRef, consulted: set | None = None, base=object, extra_ns=None, **attrs):
    """An instance whose *state* is given by the caller (`attrs`, which also shadow same-named methods / properties)
    and whose every other attribute is the repository's own definition found through `cls`'s MRO, folded on demand.
    So a fold written against today's method bodies keeps working when a few lines are extracted into a new private
    helper method."""
    key = (id(m), id(it), cls, frozenset(attrs), base if isinstance(base, tuple) else (base,), frozenset(extra_ns or ()))
    C = _classes.get(key)
    if C is None:
        names = None
        C = bound_class(m, it, cls, base=base, consulted=consulted, extra_ns=extra_ns, exclude=frozenset(attrs))
        _classes[key] = C
        if len(_classes) > 400:
            _classes.pop(next(iter(_classes)))
    o = C.__new__(C) if base is object else C()
    for k, v in attrs.items():
        setattr(o, k, v)
    return o
