"""Value semantics of lexical items, decided on the constructors themselves.

Equality / ordering / hash of an item go through its `sort_tuple`; its identity (`ident`, cache key, pickling) through
its `spec`.  The constructors of the compound classes (Predicated, Quantified, Operated) and of CoordsItem are folded
(minieval) over families of mock components that differ in exactly the ways real components can (same symbol with
another arity, a constant and a variable with equal coordinates, another operand order, ...).  Over every pair of
constructed items:   spec equal  <=>  sort_tuple equal,   and every sort_tuple starts with the class's type rank.
The comparison operators are folded from the one wrapper: each is the Python operator applied to (orderitems, 0) and
NotImplemented for a foreign operand; hashitem depends on sort_tuple only; identitem is (class name, spec)."""
from __future__ import annotations

import ast
import itertools
import operator as _op

from .core import AnalysisError
from .minieval import Interp, Obj, Raised, Raises
from .model import ClassRef, Model

LEX = 'pytableaux.lang.lex'
LANG = 'pytableaux.lang'
EXC = (Raised, TypeError, KeyError, AttributeError, IndexError, ValueError)


class Comp(Obj):
    "a mock component: carries spec / ident / sort_tuple like a real lexical item"

    def __repr__(self):
        return self._name


def comp(name, clsname, spec, key, **kw):
    return Comp(name, spec=spec, ident=(clsname, spec), sort_tuple=key, **kw)


def agree(items, label, rank, results):
    "items: [(description, selfmock)] after the constructor ran"
    for (da, a), (db, b) in itertools.combinations(items, 2):
        sa_, sb = getattr(a, 'spec', None), getattr(b, 'spec', None)
        ka, kb = getattr(a, 'sort_tuple', None), getattr(b, 'sort_tuple', None)
        ok = (sa_ == sb) == (ka == kb)
        results.append((ok, f'{label}: {da} vs {db}',
                        f'spec {"equal" if sa_ == sb else "different"} ({sa_} / {sb}) but sort_tuple {"equal" if ka == kb else "different"} ({ka} / {kb}): '
                        f'== / hash (by sort_tuple) and ident (by spec) disagree'))
    for d, a in items:
        k = getattr(a, 'sort_tuple', None)
        ok = isinstance(k, tuple) and k and k[0] == rank
        results.append((ok, f'{label}: {d} rank', f'sort_tuple {k} does not start with the type rank {rank}'))


def fold_constructors(m: Model):
    results, consulted = [], []
    RP, RC, RV, RO, RQ, RS = 10, 20, 30, 40, 50, 60
    # components
    F1 = comp('F/1', 'Predicate', (0, 0, 1), (RP, 0, 0, 1), arity=1)
    F2 = comp('F/2', 'Predicate', (0, 0, 2), (RP, 0, 0, 2), arity=2)
    G2 = comp('G/2', 'Predicate', (1, 0, 2), (RP, 0, 1, 2), arity=2)
    a = comp('a', 'Constant', (0, 0), (RC, 0, 0))
    b = comp('b', 'Constant', (1, 0), (RC, 0, 1))
    x = comp('x', 'Variable', (0, 0), (RV, 0, 0))
    y = comp('y', 'Variable', (1, 0), (RV, 0, 1))
    s1 = comp('A', 'Atomic', (0, 0), (RS, 0, 0))
    s2 = comp('B', 'Atomic', (1, 0), (RS, 0, 1))
    Neg = comp('Negation', 'Operator', ('Negation',), (RO, 10), arity=1)
    Con = comp('Conjunction', 'Operator', ('Conjunction',), (RO, 20), arity=2)
    Dis = comp('Disjunction', 'Operator', ('Disjunction',), (RO, 30), arity=2)
    Ex = comp('Existential', 'Quantifier', ('Existential',), (RQ, 10))
    Un = comp('Universal', 'Quantifier', ('Universal',), (RQ, 20))
    ident = lambda v: v
    g = dict(Predicate=ident, Parameter=ident, Sentence=ident, Operator=ident, Quantifier=ident, Variable=ident, Constant=ident,
             Emsg=Obj('Emsg', ArityMismatch=lambda *a_: TypeError('arity')), TypeError=TypeError, IndexError=IndexError, frozenset=frozenset,
             chain=itertools.chain)
    it = Interp(g, where='lang/lex.py constructors')
    it.g['isinstance'] = lambda o, t: False if t in (ident,) else isinstance(o, t)

    def build(cls, rank, argsets, label):
        fn = m.func(LEX, f'{cls}.__init__')
        consulted.append(m.loc(LEX, fn) + f' {cls}.__init__')
        items = []
        for desc, args in argsets:
            self_ = Obj(desc, TYPE=Obj('TYPE', rank=rank), __srcclass__=(m, ClassRef(LEX, cls)))
            try:
                it.call(fn, [self_, *args])
            except EXC as e:
                results.append((False, f'{label}: {desc}', f'constructor raises {type(e).__name__}: {getattr(e, "text", e)}'))
                continue
            items.append((desc, self_))
        agree(items, label, rank, results)
    build('Predicated', 70, [('Fa', (F1, (a,))), ('Fb', (F1, (b,))), ('Fx', (F1, (x,))), ('Fab', (F2, (a, b))), ('Fba', (F2, (b, a))),
                             ('Gab', (G2, (a, b))), ('Fax', (F2, (a, x))), ('Fxa', (F2, (x, a))), ('Faa', (F2, (a, a))), ('Fa again', (F1, (a,)))], 'Predicated')
    PFx = comp('Fx', 'Predicated', ((0, 0, 1), (('Variable', (0, 0)),)), (70, RP, 0, 0, 1, RV, 0, 0))
    PFy = comp('Fy', 'Predicated', ((0, 0, 1), (('Variable', (1, 0)),)), (70, RP, 0, 0, 1, RV, 0, 1))
    build('Quantified', 80, [('ExFx', (Ex, x, PFx)), ('UxFx', (Un, x, PFx)), ('EyFx', (Ex, y, PFx)), ('ExFy', (Ex, x, PFy)), ('EyFy', (Ex, y, PFy)),
                             ('ExFx again', (Ex, x, PFx))], 'Quantified')
    build('Operated', 90, [('~A', (Neg, (s1,))), ('~B', (Neg, (s2,))), ('A&B', (Con, (s1, s2))), ('B&A', (Con, (s2, s1))), ('AvB', (Dis, (s1, s2))),
                           ('A&A', (Con, (s1, s1))), ('A&B again', (Con, (s1, s2)))], 'Operated')
    # CoordsItem.__new__ : spec and key both derive from the given coordinates
    fn = m.func(LEX, 'CoordsItem.__new__')
    consulted.append(m.loc(LEX, fn) + ' CoordsItem.__new__')
    srt = {}
    for nm in ('BiCoords', 'TriCoords'):
        srt[nm] = m.func(LANG, f'{nm}.sorting')
        consulted.append(m.loc(LANG, srt[nm]) + f' {nm}.sorting')

    def coords_cls(nm, fields):
        return coords_mirror(m, nm)[0]
    it2 = Interp(dict(object=Obj('object', __new__=lambda cls: Obj('item', _cls=cls), __setattr__=setattr), check=Obj('check', inst=lambda *a_: None),
                      ValueError=ValueError, TypeError=TypeError, AttributeError=AttributeError, zip=zip, len=len), where='lang/lex.py CoordsItem.__new__')
    for nm, fields, rank, specs in (('BiCoords', ('index', 'subscript'), RC, [(0, 0), (1, 0), (0, 1), (1, 1), (0, 2)]),
                                    ('TriCoords', ('index', 'subscript', 'arity'), RP, [(0, 0, 1), (0, 0, 2), (1, 0, 1), (0, 1, 1), (1, 1, 2)])):
        C = coords_cls(nm, fields)
        items = []
        for sp in specs + [specs[0]]:
            cls = Obj('cls', Coords=C, TYPE=Obj('TYPE', rank=rank, maxi=3))
            try:
                o = it2.call(fn, [cls, *sp])
                if not hasattr(o, 'Coords'):
                    pass
                items.append((f'{nm}{sp}', o))
            except EXC as e:
                # the instance reads Coords/TYPE from the class: give the instance mock the class attributes and retry
                try:
                    it3 = Interp(dict(object=Obj('object', __new__=lambda c_: Obj('item', Coords=C, TYPE=Obj('TYPE', rank=rank, maxi=3)), __setattr__=setattr),
                                      check=Obj('check', inst=lambda *a_: None), ValueError=ValueError, TypeError=TypeError, AttributeError=AttributeError,
                                      zip=zip, len=len), where='lang/lex.py CoordsItem.__new__')
                    o = it3.call(fn, [cls, *sp])
                    items.append((f'{nm}{sp}', o))
                except EXC as e2:
                    results.append((False, f'CoordsItem: {nm}{sp}', f'constructor raises {type(e2).__name__}: {getattr(e2, "text", e2)}'))
        agree(items, f'CoordsItem/{nm}', rank, results)
    return results, consulted


def fold_compare_ops(m: Model):
    """The comparison operators assigned from the one wrapper, hashitem, identitem."""
    results, consulted = [], []
    cd = m.clsdef(ClassRef(LEX, 'Lexical'))
    fns = {st.name: st for st in cd.body if isinstance(st, ast.FunctionDef)}
    oi = fns.get('orderitems')
    if oi is None:
        raise AnalysisError('Lexical.orderitems vanished')
    # the assignment `__lt__ = ... = wrapper()`
    names, factory = [], None
    for st in cd.body:
        if isinstance(st, ast.Assign) and isinstance(st.value, ast.Call) and isinstance(st.value.func, ast.Name) and st.value.func.id in fns:
            tg = [t.id for t in st.targets if isinstance(t, ast.Name)]
            if '__eq__' in tg or '__lt__' in tg:
                names += tg
                factory = fns[st.value.func.id]
    need = ['__eq__', '__ge__', '__gt__', '__le__', '__lt__']
    ok = factory is not None and sorted(set(names)) == need
    results.append((ok, 'operators from one wrapper', f'==,<,<=,>,>= are not all produced by one wrapper factory (found {sorted(set(names))})'))
    if factory is None:
        return results, consulted
    consulted.append(m.loc(LEX, factory) + f' Lexical.{factory.name}')
    consulted.append(m.loc(LEX, oi) + ' Lexical.orderitems')
    inner = [st for st in factory.body if isinstance(st, ast.FunctionDef)]
    if len(inner) != 1:
        raise AnalysisError('Lexical comparison wrapper: inner function not found')
    from functools import wraps as _wraps
    import itertools as _it

    class LexM(Obj):
        pass
    keys = [(1, 0, 0), (1, 0, 1), (1, 1), (2, 0), (1, 0, 0, 0)]
    for name in need:
        pyop = getattr(_op, name.strip('_'))
        it = Interp(dict(opr=_op, wraps=lambda *a, **k: (lambda f: f), zip_longest=_it.zip_longest, starmap=_it.starmap, NotImplemented=NotImplemented,
                         TypeError=TypeError, AttributeError=AttributeError, check=Obj('check', inst=lambda o, t: (_ for _ in ()).throw(TypeError('inst'))),
                         isinstance=lambda o, t: isinstance(o, LexM) if t is LexicalNS else isinstance(o, t)), where='lang/lex.py comparison wrapper')
        LexicalNS = Obj('Lexical', orderitems=lambda a_, b_: it.call(oi, [a_, b_]))
        it.g['Lexical'] = LexicalNS
        it.g['__class__'] = LexicalNS
        member = Obj('member', name=name)
        # run the factory body up to the inner def with `member` bound, to obtain `oper`
        env = {'member': member}
        oper = pyop
        for sub in ast.walk(inner[0]):
            pass
        env_oper = getattr(_op, name)

        def call_inner(a_, b_, env_oper=env_oper):
            it.g['oper'] = env_oper
            return it.call(inner[0], [a_, b_])
        for ka, kb in itertools.product(keys, repeat=2):
            A, B = LexM('a', sort_tuple=ka), LexM('b', sort_tuple=kb)
            n = max(len(ka), len(kb))
            pa, pb = ka + (0,) * (n - len(ka)), kb + (0,) * (n - len(kb))
            want = pyop(pa, pb)
            try:
                got = call_inner(A, B)
            except EXC as e:
                got = Raises(f'{type(e).__name__}: {getattr(e, "text", e)}')
            ok = got is want or got == want and not isinstance(got, Raises)
            results.append((ok, f'{name} on keys {ka}, {kb}', f'gives {got!r}; comparing the (zero-padded) keys gives {want}'))
        try:
            got = call_inner(LexM('a', sort_tuple=(1, 0)), 'a string')
        except EXC as e:
            got = Raises(f'{type(e).__name__}: {getattr(e, "text", e)}')
        results.append((got is NotImplemented, f'{name} with a foreign operand', f'gives {got!r}, expected NotImplemented'))
    # hashitem / identitem
    hi, ii = fns.get('hashitem'), fns.get('identitem')
    if hi is None or ii is None:
        raise AnalysisError('Lexical.hashitem / identitem vanished')
    consulted += [m.loc(LEX, hi) + ' Lexical.hashitem', m.loc(LEX, ii) + ' Lexical.identitem']
    it = Interp(dict(hash=hash, type=lambda o: Obj('cls', __name__=o._clsname) if hasattr(o, '_clsname') else type(o)), where='lang/lex.py hashitem')
    it.g['__class__'] = 'Lexical'
    A = Obj('a', sort_tuple=(1, 2, 3), spec='SPEC-A', _clsname='Constant')
    B = Obj('b', sort_tuple=(1, 2, 3), spec='SPEC-B', _clsname='Variable')
    C = Obj('c', sort_tuple=(1, 2, 4), spec='SPEC-A', _clsname='Constant')
    try:
        ha, hb, hc = (it.call(hi, [o]) for o in (A, B, C))
        ok = ha == hb and isinstance(ha, int) and ha != hc
        results.append((ok, 'hashitem', f'items with equal sort_tuple hash to {ha} / {hb}, a different key to {hc}: equal items must hash equally (by sort_tuple alone)'))
    except EXC as e:
        results.append((False, 'hashitem', f'raises {e}'))
    # the hash is cached in a slot and pickled with the item: what is hashed must mean the same in every process -- ints and
    # tuples of ints (the sort tuple); a class object hashes by its address, a str by the per-process seed
    hashed = []

    class LexicalCls:
        "stands for the class object `__class__` inside lang/lex.py"
    ith = Interp(dict(hash=lambda x: (hashed.append(x), 12345)[1]), where='lang/lex.py hashitem')
    ith.g['__class__'] = LexicalCls
    ith.g['Lexical'] = LexicalCls

    def portable(x):
        if isinstance(x, bool) or x is None:
            return True
        if isinstance(x, int):
            return True
        if isinstance(x, tuple):
            return all(portable(y) for y in x)
        return False
    try:
        ith.call(hi, [A])
        bad = [x for x in hashed if not portable(x)]
        results.append((bool(hashed) and not bad, 'hashitem across processes',
                        f'hashes {hashed!r}: that contains something other than ints (a class object, a string), whose hash differs from process to process -- '
                        f'the cached hash is pickled with the item, and unpickling it in another process conflicts with the recomputed one'))
    except EXC as e:
        results.append((False, 'hashitem across processes', f'raises {e}'))
    try:
        ia = it.call(ii, [A])
        results.append((ia == ('Constant', 'SPEC-A'), 'identitem', f'gives {ia!r}, expected (class name, spec)'))
    except EXC as e:
        results.append((False, 'identitem', f'raises {e}'))
    return results, consulted


COL = 'pytableaux.lang.collect'


def fold_argument(m: Model):
    """Argument: the comparison wrapper (length first, then item-wise by orderitems), hash from the sentences alone
    (title excluded), __hash__ returns it."""
    results, consulted = [], []
    cd = m.clsdef(ClassRef(COL, 'Argument'))
    fns = {}
    for st in cd.body:
        if isinstance(st, ast.FunctionDef):
            fns.setdefault(st.name, st)
    factory, names = None, []
    for st in cd.body:
        if isinstance(st, ast.Assign) and isinstance(st.value, ast.Call) and isinstance(st.value.func, ast.Name) and st.value.func.id in fns:
            tg = [t.id for t in st.targets if isinstance(t, ast.Name)]
            if '__eq__' in tg:
                names, factory = tg, fns[st.value.func.id]
    need = ['__eq__', '__ge__', '__gt__', '__le__', '__lt__']
    if factory is None or sorted(names) != need:
        results.append((False, 'Argument operators', f'==,<,<=,>,>= are not all produced by one wrapper factory (found {sorted(names)})'))
        return results, consulted
    inner = [st for st in factory.body if isinstance(st, ast.FunctionDef)][0]
    consulted.append(m.loc(COL, factory) + ' Argument.wrapper')
    import itertools as _it

    class ArgM(list):
        title = None

        def __hash__(self):
            return id(self)

    def order(a, b):
        return (a > b) - (a < b)
    for name in need:
        pyop = getattr(_op, name.strip('_'))
        it = Interp(dict(starmap=_it.starmap, zip=zip, len=len, NotImplemented=NotImplemented, Argument=ArgM,
                         Lexical=Obj('Lexical', orderitems=order), isinstance=isinstance, Any=object), where='lang/collect.py Argument.wrapper')
        it.g['oper'] = getattr(_op, name)
        seqs = [[1], [2], [1, 1], [1, 2], [2, 1], [1, 1, 1]]
        for sa_, sb in itertools.product(seqs, repeat=2):
            A, B = ArgM(sa_), ArgM(sb)
            want = pyop((len(sa_), sa_), (len(sb), sb))
            try:
                got = it.call(inner, [A, B])
            except EXC as e:
                got = Raises(f'{type(e).__name__}: {getattr(e, "text", e)}')
            ok = not isinstance(got, Raises) and got == want
            results.append((ok, f'Argument {name} on {sa_}, {sb}', f'gives {got!r}; length first, then item-wise, gives {want}'))
        A = ArgM([1, 2])
        try:
            same = it.call(inner, [A, A])
            foreign = it.call(inner, [A, 'x'])
        except EXC as e:
            same = foreign = Raises(str(e))
        results.append((same == pyop(0, 0) and foreign is NotImplemented, f'Argument {name} identity / foreign', f'self vs self gives {same!r}, foreign operand {foreign!r}'))
    # hash
    h = fns.get('hash')
    hh = fns.get('__hash__')
    if h is None or hh is None:
        raise AnalysisError('Argument.hash / __hash__ vanished')
    consulted += [m.loc(COL, h) + ' Argument.hash', m.loc(COL, hh) + ' Argument.__hash__']
    it = Interp(dict(hash=hash), where='lang/collect.py Argument.hash')
    A = Obj('arg', seq=('C', 'P1'), title='one title', premises=('P1',), conclusion='C')
    B = Obj('arg', seq=('C', 'P1'), title=None, premises=('P1',), conclusion='C')
    D = Obj('arg', seq=('C', 'P2'), title=None, premises=('P2',), conclusion='C')
    try:
        ha, hb, hd = (it.call(h, [o]) for o in (A, B, D))
        ok = ha == hb and ha != hd
        results.append((ok, 'Argument.hash', f'equal arguments (same sentences, titles {A.title!r} / {B.title!r}) hash to {ha} / {hb}; another argument to {hd}'))
        A.hash = 'CACHED'
        r = it.call(hh, [A])
        results.append((r == 'CACHED', 'Argument.__hash__', f'returns {r!r}, expected the cached hash'))
    except EXC as e:
        results.append((False, 'Argument.hash', f'raises {e}'))
    return results, consulted


def coords_mirror(m: Model, name, it=None):
    """A namedtuple mirror of lang.BiCoords / TriCoords (fields and the nested Sorting tuple read from the class body) whose
    sorting() is the repository's definition, folded."""
    import collections
    cd = m.clsdef(ClassRef(LANG, name))
    fields = [st.target.id for st in cd.body if isinstance(st, ast.AnnAssign) and isinstance(st.target, ast.Name)]
    scd = next((st for st in cd.body if isinstance(st, ast.ClassDef) and st.name == 'Sorting'), None)
    if not fields or scd is None:
        raise AnalysisError(f'{name}: fields / Sorting not readable')
    sfields = [st.target.id for st in scd.body if isinstance(st, ast.AnnAssign) and isinstance(st.target, ast.Name)]
    Sorting = collections.namedtuple('Sorting', sfields)
    srt = m.func(LANG, f'{name}.sorting')
    it = it or Interp({}, where=f'lang/__init__.py {name}.sorting')
    Base = collections.namedtuple(name, fields)

    class C(Base):
        __slots__ = ()

        def sorting(self):
            return it.call(srt, [self])
    C.Sorting = Sorting
    C.__name__ = name
    return C, srt


def fold_readonly(m: Model):
    """Immutability after initialisation, decided on the setters themselves.  For every lexical class the `__setattr__` it
    resolves to (through the MRO; class-level `x = nosetattr(...)` expressions evaluated with tools.NoSetAttr *folded*) is
    applied to an instance in the state the package is in after lang.init(): `_readonly = True` on exactly the classes the
    init loop names, the guard object enabled.  Changing an existing attribute must raise AttributeError and leave the
    value; for the non-Enum classes setting a *new* attribute must still work (items are constructed after init)."""
    from .bind import bound_class
    TOOLS = 'pytableaux.tools'
    results, consulted = [], set()
    # 1. what init() switches on
    init = next((st for st in m.trees[LANG].body if isinstance(st, ast.FunctionDef) and st.name == 'init'), None)
    if init is None:
        raise AnalysisError('lang.init() vanished')
    readonly_names, enabled = set(), False
    for n in ast.walk(init):
        if isinstance(n, ast.For) and isinstance(n.iter, ast.Tuple):
            for st in n.body:
                if isinstance(st, ast.Assign) and isinstance(st.targets[0], ast.Attribute) and st.targets[0].attr == '_readonly' \
                        and isinstance(st.value, ast.Constant) and st.value.value is True:
                    readonly_names |= {ast.unparse(e).split('.')[-1] for e in n.iter.elts}
        if isinstance(n, ast.Assign) and isinstance(n.targets[0], ast.Attribute) and n.targets[0].attr == 'enabled' \
                and 'nosetattr' in ast.unparse(n.targets[0].value) and isinstance(n.value, ast.Constant) and n.value.value is True:
            enabled = True
    consulted.add(m.loc(LANG, init) + ' lang.init')
    results.append((enabled and bool(readonly_names), 'init switches read-only mode on',
                    f'lang.init() enables the guard: {enabled}; sets _readonly = True on {sorted(readonly_names)}'))
    # 2. NoSetAttr folded
    it = Interp(dict(MapProxy=dict, for_defaults=lambda d, o: {**d, **{k: v for k, v in o.items() if k in d}}, wraps=lambda *a, **k: (lambda f: f),
                     AttributeError=AttributeError, bool=bool, type=type, getattr=getattr), where='tools/__init__.py NoSetAttr')
    cd = m.clsdef(ClassRef(TOOLS, 'NoSetAttr'))
    defaults = None
    for st in cd.body:
        if isinstance(st, ast.Assign) and isinstance(st.targets[0], ast.Name) and st.targets[0].id == 'defaults':
            defaults = it.ev(st.value, {})
    if defaults is None:
        raise AnalysisError('NoSetAttr.defaults not readable')
    NSA = bound_class(m, it, ClassRef(TOOLS, 'NoSetAttr'), consulted=consulted, with_init=True, extra_ns=dict(defaults=defaults),
                      apply_decorators=('cached',), exclude=('cached',))
    guard = NSA(attr='_readonly', enabled=False)
    guard.enabled = True
    # 3. mirrors of the class hierarchy with the flags init() sets
    names = ['Lexical', 'LexicalAbc', 'LexicalEnum', 'Operator', 'Quantifier', 'Constant', 'Variable', 'Predicate', 'Atomic', 'Predicated', 'Quantified', 'Operated']
    mirrors = {}

    def mirror(ref):
        if ref in mirrors:
            return mirrors[ref]
        bases = tuple(mirror(b) for b in m.bases(ref) if b.module.startswith('pytableaux.lang')) or (object,)
        try:
            C = type(ref.qualname, bases, {})
        except TypeError:
            C = type(ref.qualname, (bases[0],), {})
        mirrors[ref] = C
        if ref.qualname in readonly_names:
            C._readonly = True
        return C
    for n in names:
        mirror(ClassRef(LEX, n))
    byname = {r.qualname: c for r, c in mirrors.items()}
    for meta in ('LexicalAbcMeta', 'LangCommonMeta', 'LangCommonEnumMeta'):
        byname.setdefault(meta, type(meta, (), {'_readonly': True} if meta in readonly_names else {}))
    g = dict(byname)

    class ReadOnlyError(AttributeError):
        pass
    g.update(nosetattr=guard, object=object, abcs=Obj('abcs', Ebc=object, AbcMeta=type, EbcMeta=type), NOARG=object(), getattr=getattr,
             Emsg=Obj('Emsg', ReadOnly=lambda *a: ReadOnlyError(*a)), errors=Obj('errors', warn=lambda *a, **k: None, RepeatValueWarning=Warning))
    ite = Interp(g, where='lang/lex.py __setattr__')

    def resolve(ref, after=None):
        mro = m.mro(ref)
        start = mro.index(after) + 1 if after is not None else 0
        for c in mro[start:]:
            try:
                ns = m.clsns(c)
            except Exception:
                continue
            if '__setattr__' in ns:
                raw = ns['__setattr__']
                if isinstance(raw, tuple) and raw[0] == 'expr':
                    expr = raw[1] if isinstance(raw[1], ast.AST) else ast.parse(raw[1], mode='eval').body
                    consulted.add(f'{m.relfile(c.module)} {c.qualname}.__setattr__ = {ast.unparse(expr)}')
                    if isinstance(expr, ast.Attribute) and expr.attr == '__setattr__' and isinstance(expr.value, ast.Name):
                        # `__setattr__ = OtherClass.__setattr__`: that class's own setter, resolved from source
                        other = next((r for r in list(mirrors) + [ClassRef(LANG, expr.value.id), ClassRef(LEX, expr.value.id)] if r.qualname == expr.value.id), None)
                        if other is not None:
                            try:
                                return resolve(other)[0], c
                            except Exception:
                                pass
                    return ite.ev(expr, {}), c
                v = m.force(raw)
                if hasattr(v, 'node'):
                    consulted.add(m.floc(v) + f' {v.qualname}')
                    fn = v.node

                    def setter(obj, name, value, fn=fn, c=c):
                        old = ite.g.get('super')
                        nxt, _ = resolve(ref, after=c)
                        ite.g['super'] = lambda *a: Obj('super', __setattr__=lambda n_, v_: (nxt or object.__setattr__)(obj, n_, v_))
                        try:
                            return ite.call(fn, [obj, name, value])
                        finally:
                            ite.g['super'] = old
                    return setter, c
        return object.__setattr__, None
    for n in names[3:]:
        ref = ClassRef(LEX, n)
        C = byname[n]
        try:
            setter, owner = resolve(ref)
        except EXC as e:
            results.append((False, f'{n}: setter', f'resolving __setattr__ raises {type(e).__name__}: {getattr(e, "text", e)}'))
            continue
        inst = C()
        object.__setattr__(inst, 'arity', 1)
        try:
            setter(inst, 'arity', 5)
            outcome = 'accepted'
        except AttributeError:
            outcome = 'refused'
        except EXC as e:
            outcome = f'raises {type(e).__name__}: {getattr(e, "text", e)}'
        ok = outcome == 'refused' and inst.arity == 1
        results.append((ok, f'{n}: changing an attribute after initialisation',
                        f'`item.arity = 5` on a {n} is {outcome} (value now {inst.arity}); the setter comes from {owner.qualname if owner else "object"} -- expected AttributeError and no change'))
        if 'LexicalEnum' not in [c.qualname for c in m.mro(ref)]:
            inst2 = C()
            try:
                setter(inst2, 'fresh', 7)
                outcome2 = 'accepted' if getattr(inst2, 'fresh', None) == 7 else 'lost'
            except EXC + (AttributeError,) as e:
                outcome2 = f'raises {type(e).__name__}'
            results.append((outcome2 == 'accepted', f'{n}: first assignment of an attribute (construction)', f'is {outcome2}; items are constructed after init(), their constructors must still be able to set attributes'))
    # 3b. a value that merely *compares equal* to the current one (an enum member's name, 0.0 for 0) must not replace it
    class EqualStranger:
        "equal to everything, identical to nothing"
        def __eq__(self, other):
            return True

        def __ne__(self, other):
            return False
        __hash__ = None
    for n in names[3:]:
        ref = ClassRef(LEX, n)
        if 'LexicalEnum' in [c.qualname for c in m.mro(ref)]:
            continue
        C = byname[n]
        try:
            setter, owner = resolve(ref)
        except EXC:
            continue
        inst = C()
        original = ('ORIGINAL',)
        object.__setattr__(inst, 'operator', original)
        try:
            setter(inst, 'operator', EqualStranger())
            outcome = 'accepted'
        except AttributeError:
            outcome = 'refused'
        except EXC as e:
            outcome = f'raises {type(e).__name__}: {getattr(e, "text", e)}'
        ok = inst.operator is original
        results.append((ok, f'{n}: re-assigning an attribute with an equal but different object',
                        f'`item.operator = <object equal to the current value>` is {outcome} and the attribute is now {"unchanged" if ok else "the other object"}; '
                        f'expected the original object to stay (an enum member equals its name: `s.operator = "Negation"` would put a str in its place)'))
    # 3c. lazily computed caches (`@lazy.prop def atomics` caches in the slot `_atomics`) are part of the item: nobody but the lazy
    #     getter may fill them -- a value planted before the first read *is* the derived attribute from then on
    for n in names[3:]:
        ref = ClassRef(LEX, n)
        if 'LexicalEnum' in [c.qualname for c in m.mro(ref)]:
            continue
        lazies = []
        for c in m.mro(ref):
            if not c.module.startswith('pytableaux.lang'):
                continue
            try:
                cdx = m.clsdef(c)
            except Exception:
                continue
            for st in cdx.body:
                if isinstance(st, ast.FunctionDef) and any(ast.unparse(d).split('(')[0] in ('lazy.prop', 'lazy.get') for d in st.decorator_list):
                    # (ident and hash are read when the item enters the construction cache, i.e. before anyone else holds it)
                    if st.name not in lazies and st.name not in ('ident', 'hash'):
                        lazies.append(st.name)
        if not lazies:
            continue
        C = byname[n]
        try:
            setter, owner = resolve(ref)
        except EXC:
            continue
        planted = []
        for lz in lazies:
            inst = C()
            try:
                setter(inst, '_' + lz, 'PLANTED')
                if getattr(inst, '_' + lz, None) == 'PLANTED':
                    planted.append(lz)
            except AttributeError:
                pass
            except EXC as e:
                planted.append(f'{lz} (raises {type(e).__name__})')
        results.append((not planted, f'{n}: planting a lazily computed attribute',
                        f'`item._{(planted or lazies)[0].split(" ")[0]} = value` on a finished {n} that has not computed it yet is accepted for {planted}: the item then reports the planted '
                        f'value as its {"/".join(planted) or "attribute"} -- expected AttributeError (only the lazy getter fills its cache)'))
    # 4. names with leading underscores are attributes like any other (the read-only flag itself, Enum's _value_ / _name_)
    for n in names[3:]:
        ref = ClassRef(LEX, n)
        C = byname[n]
        try:
            setter, owner = resolve(ref)
        except EXC:
            continue
        for attr in ('_value_', '_readonly', '__private'):
            inst = C()
            object.__setattr__(inst, attr, 'ORIGINAL')
            try:
                setter(inst, attr, 'CHANGED')
                outcome = 'accepted'
            except AttributeError:
                outcome = 'refused'
            except EXC as e:
                outcome = f'raises {type(e).__name__}: {getattr(e, "text", e)}'
            ok = outcome == 'refused' and getattr(inst, attr) == 'ORIGINAL'
            results.append((ok, f'{n}: changing the attribute {attr} after initialisation',
                            f'`item.{attr} = ...` on a {n} is {outcome}; the setter comes from {owner.qualname if owner else "object"} -- expected AttributeError and no change'))
    # 5. the classes themselves: the metaclass setters refuse every write once _readonly is on (the flag included)
    for meta, targets in (('LangCommonMeta', ('LexicalAbc', 'Predicate', 'Operated')), ('LangCommonEnumMeta', ('LexicalEnum', 'Operator', 'Quantifier'))):
        mref = ClassRef(LANG, meta)
        try:
            raw = m.clsns(mref).get('__setattr__')
        except Exception as e:
            raise AnalysisError(f'lang.{meta} not readable: {e}')
        if not (isinstance(raw, tuple) and raw[0] == 'expr'):
            v = m.force(raw) if raw is not None else None
            if v is None or not hasattr(v, 'node'):
                results.append((False, f'{meta}: class-level setter', f'lang.{meta} defines no __setattr__: the classes it makes are writable after init()'))
                continue
            msetter = lambda obj, name, value, fn=v.node: ite.call(fn, [obj, name, value])
        else:
            expr = raw[1] if isinstance(raw[1], ast.AST) else ast.parse(raw[1], mode='eval').body
            consulted.add(f'{m.relfile(LANG)} {meta}.__setattr__ = {ast.unparse(expr)}')
            try:
                msetter = ite.ev(expr, {})
            except EXC as e:
                results.append((False, f'{meta}: class-level setter', f'evaluating `{ast.unparse(expr)}` raises {type(e).__name__}: {getattr(e, "text", e)}'))
                continue
        for tn in targets:
            C = byname[tn]
            if not getattr(C, '_readonly', False):
                results.append((False, f'{tn}: read-only flag', f'after lang.init() the class {tn} does not see _readonly = True through its bases'))
                continue
            for attr, val in (('_readonly', False), ('TYPE', 'OTHER'), ('_seq', ()), ('brand_new', 1)):
                D = type(tn, (C,), {'TYPE': 'ORIGINAL', '_seq': ('ORIGINAL',)})
                before = getattr(D, attr, None)
                try:
                    msetter(D, attr, val)
                    outcome = 'accepted'
                except AttributeError:
                    outcome = 'refused'
                except EXC as e:
                    outcome = f'raises {type(e).__name__}: {getattr(e, "text", e)}'
                ok = outcome == 'refused' and getattr(D, attr, None) == before
                results.append((ok, f'{tn} (class): assigning {attr} after initialisation',
                                f'`{tn}.{attr} = {val!r}` is {outcome} by {meta}.__setattr__ -- expected AttributeError: with the flag off every item becomes writable'))
    return results, sorted(consulted)


def fold_eq_overrides(m: Model):
    """`__eq__` overrides of the constructible (non-Enum) lexical classes: two *different objects* with the same comparison key
    -- what copying through `__new__` / unpickling (`__getnewargs__`) produces -- are equal, items with different keys are not,
    whatever flags the instances carry (system predicate or not).  The base operator they fall back on is the key comparison
    decided by fold_compare_ops."""
    results, consulted = [], []
    enum_classes = set()
    for st in m.trees[LEX].body:
        if isinstance(st, ast.ClassDef):
            ref = ClassRef(LEX, st.name)
            try:
                mro = [c.qualname for c in m.mro(ref)]
            except Exception:
                continue
            if 'LexicalEnum' in mro or 'LangCommonEnum' in mro or any(q.endswith('Enum') for q in mro):
                enum_classes.add(st.name)
    n = 0
    for st in m.trees[LEX].body:
        if not isinstance(st, ast.ClassDef) or st.name in enum_classes:
            continue
        ref = ClassRef(LEX, st.name)
        try:
            if 'Lexical' not in [c.qualname for c in m.mro(ref)]:
                continue
        except Exception:
            continue
        fn = next((x for x in st.body if isinstance(x, ast.FunctionDef) and x.name == '__eq__'), None)
        if fn is None:
            continue
        n += 1
        consulted.append(m.loc(LEX, fn) + f' {st.name}.__eq__')

        class Item(Obj):
            pass
        Cls = Obj(st.name)
        it = Interp({st.name: Cls, 'NotImplemented': NotImplemented, 'isinstance': lambda o, t: isinstance(o, Item) if t is Cls else isinstance(o, t),
                     'type': lambda o: Cls if isinstance(o, Item) else type(o)}, where=f'lang/lex.py {st.name}.__eq__')
        for is_system in (False, True):
            for ka, kb in (((20, 0, -1, 2), (20, 0, -1, 2)), ((20, 0, 1, 2), (20, 0, 1, 2)), ((20, 0, 1, 2), (20, 0, 2, 2)), ((20, 0, -1, 2), (20, 0, -2, 1))):
                A = Item('a', sort_tuple=ka, is_system=is_system, name='Identity', spec=ka[1:], ident=(st.name, ka[1:]))
                B = Item('b', sort_tuple=kb, is_system=is_system, name='Identity', spec=kb[1:], ident=(st.name, kb[1:]))
                sup = Obj('super')
                sup.__eq__ = lambda other, A=A: (A.sort_tuple == other.sort_tuple) if isinstance(other, Item) else NotImplemented
                it.g['super'] = lambda *a: sup
                for x, y, label in ((A, B, 'two objects'), (A, A, 'one object')):
                    try:
                        got = it.call(fn, [x, y])
                    except EXC as e:
                        got = Raises(f'{type(e).__name__}: {getattr(e, "text", e)}')
                    want = x.sort_tuple == y.sort_tuple
                    ok = got is want
                    results.append((ok, f'{st.name}.__eq__ ({label}, keys {ka} / {kb if x is not y else ka}, is_system={is_system})',
                                    f'gives {got!r}; structurally identical items are equal and others are not: expected {want} '
                                    f'(an unpickled or copied item is another object with the same key)'))
    results.append((n >= 1, 'eq overrides found', f'{n} non-Enum lexical classes override __eq__'))
    return results, consulted
