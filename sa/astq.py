"""Small AST query helpers used by the structural rules (E5)."""
from __future__ import annotations

import ast
from typing import Iterator

from .core import AnalysisError


def u(node) -> str:
    "normalised source text of a node"
    return ast.unparse(node) if node is not None else ''


def stmts(fn) -> list:
    "function/class body without the docstring"
    body = list(fn.body)
    if body and isinstance(body[0], ast.Expr) and isinstance(body[0].value, ast.Constant) and isinstance(body[0].value.value, str):
        body = body[1:]
    return body


def walk_no_nested(node) -> Iterator[ast.AST]:
    "ast.walk that does not descend into nested function/class definitions (but yields the root)"
    todo = [node]
    first = True
    while todo:
        n = todo.pop()
        if not first and isinstance(n, (ast.FunctionDef, ast.AsyncFunctionDef, ast.ClassDef, ast.Lambda)):
            continue
        first = False
        yield n
        todo.extend(ast.iter_child_nodes(n))


def calls(node, nested=True) -> Iterator[ast.Call]:
    it = ast.walk(node) if nested else walk_no_nested(node)
    for n in it:
        if isinstance(n, ast.Call):
            yield n


def call_name(c: ast.Call) -> str:
    return u(c.func)


def find_calls(node, name, nested=True) -> list:
    return [c for c in calls(node, nested) if call_name(c) == name]


def attr_chain(n):
    parts = []
    while isinstance(n, ast.Attribute):
        parts.append(n.attr)
        n = n.value
    if isinstance(n, ast.Name):
        parts.append(n.id)
        return tuple(reversed(parts))
    return None


def names_in(n) -> set:
    return {x.id for x in ast.walk(n) if isinstance(x, ast.Name)}


def stores(node, nested=True):
    """Yield (target-node, statement) for every assignment-like store
    (Assign, AugAssign, AnnAssign with value, del, for-target, with-as, walrus)."""
    it = ast.walk(node) if nested else walk_no_nested(node)
    for n in it:
        if isinstance(n, ast.Assign):
            for t in n.targets:
                for x in flatten_target(t):
                    yield x, n
        elif isinstance(n, ast.AugAssign):
            yield n.target, n
        elif isinstance(n, ast.AnnAssign) and n.value is not None:
            yield n.target, n
        elif isinstance(n, ast.Delete):
            for t in n.targets:
                yield t, n
        elif isinstance(n, ast.NamedExpr):
            yield n.target, n


def flatten_target(t):
    if isinstance(t, (ast.Tuple, ast.List)):
        for e in t.elts:
            yield from flatten_target(e)
    elif isinstance(t, ast.Starred):
        yield from flatten_target(t.value)
    else:
        yield t


def parent_map(root):
    pm = {}
    for n in ast.walk(root):
        for c in ast.iter_child_nodes(n):
            pm[c] = n
    return pm


def enclosing(pm, node, types):
    n = pm.get(node)
    while n is not None:
        if isinstance(n, types):
            return n
        n = pm.get(n)
    return None


def terminates(block) -> bool:
    "Control cannot continue past the end of this statement list"
    if not block:
        return False
    last = block[-1]
    if isinstance(last, (ast.Return, ast.Raise, ast.Continue, ast.Break)):
        return True
    if isinstance(last, ast.If):
        return bool(last.orelse) and terminates(last.body) and terminates(last.orelse)
    if isinstance(last, ast.Try):
        if last.finalbody and terminates(last.finalbody):
            return True
        return terminates(last.body + last.orelse) and all(terminates(h.body) for h in last.handlers)
    if isinstance(last, ast.With):
        return terminates(last.body)
    return False


def guards_of(fn, target, pm=None):
    """Conditions known to hold when control reaches `target` inside `fn`:
    a list of (test-text, polarity).  Sources: enclosing `if`/`while`/ternary
    tests (polarity by branch) and earlier sibling statements
    `if T: <terminating block>` (gives (T, False)) in every enclosing block."""
    pm = pm or parent_map(fn)
    out = []
    node = target
    while node is not fn and node in pm:
        par = pm[node]
        # which block of the parent holds `node`?
        for fld in ('body', 'orelse', 'finalbody'):
            blk = getattr(par, fld, None)
            if isinstance(blk, list) and node in blk:
                idx = blk.index(node)
                for prev in blk[:idx]:
                    if isinstance(prev, ast.If) and terminates(prev.body) and not prev.orelse:
                        out.append((u(prev.test), False))
                    elif isinstance(prev, ast.If) and prev.orelse and terminates(prev.orelse) and not terminates(prev.body):
                        out.append((u(prev.test), True))
                    elif isinstance(prev, ast.Assert):
                        out.append((u(prev.test), True))
                    elif isinstance(prev, ast.Try) and prev.handlers and terminates(prev.body + prev.orelse) and not prev.finalbody:
                        # control continues past the try only through a handler that ran to completion:
                        # conditions established by *every* handler's leading early exits hold here
                        common = None
                        for h in prev.handlers:
                            hs = set()
                            for x in h.body:
                                if isinstance(x, ast.If) and terminates(x.body) and not x.orelse:
                                    hs.add((u(x.test), False))
                            common = hs if common is None else (common & hs)
                        out.extend(sorted(common or ()))
                if isinstance(par, (ast.If, ast.While)):
                    if fld == 'body':
                        out.append((u(par.test), True))
                    elif fld == 'orelse' and isinstance(par, ast.If):
                        out.append((u(par.test), False))
                break
        else:
            if isinstance(par, ast.IfExp):
                if node is par.body:
                    out.append((u(par.test), True))
                elif node is par.orelse:
                    out.append((u(par.test), False))
            if isinstance(par, ast.BoolOp) and isinstance(par.op, ast.And):
                idx = par.values.index(node) if node in par.values else -1
                for prev in par.values[:max(idx, 0)]:
                    out.append((u(prev), True))
        node = par
    return out


def stmt_of(pm, node):
    "the statement that contains `node`"
    while node is not None and not isinstance(node, ast.stmt):
        node = pm.get(node)
    return node


def is_generator(fn) -> bool:
    return any(isinstance(n, (ast.Yield, ast.YieldFrom)) for n in walk_no_nested(fn))


def decorators(fn) -> list:
    return [u(d) for d in fn.decorator_list]


def need(cond, msg):
    if not cond:
        raise AnalysisError(msg)


# ---- package-wide scans ---------------------------------------------------------
def iter_functions(m, prefix='pytableaux'):
    "(module, qualname, FunctionDef) for every function of every module under prefix"
    for mod in sorted(m.trees):
        if not mod.startswith(prefix):
            continue
        for qn, fn in all_functions(m.trees[mod]):
            yield mod, qn, fn


def all_functions(tree):
    """Like Model.functions but keeps *every* definition (property getter and
    setter share a name): returns [(qualname, node)] in source order."""
    out = []

    def walk(body, prefix):
        for st in body:
            if isinstance(st, (ast.FunctionDef, ast.AsyncFunctionDef)):
                out.append((prefix + st.name, st))
                walk(st.body, prefix + st.name + '.<locals>.')
            elif isinstance(st, ast.ClassDef):
                walk(st.body, prefix + st.name + '.')
            elif isinstance(st, (ast.If, ast.Try, ast.With, ast.For, ast.While)):
                for fld in ('body', 'orelse', 'finalbody'):
                    walk(getattr(st, fld, []) or [], prefix)
                for h in getattr(st, 'handlers', []) or []:
                    walk(h.body, prefix)
    walk(tree.body, '')
    return out


def func_variants(m, mod, qualname):
    "all definitions with this qualname (e.g. property getter + setter), with decorator texts"
    return [(fn, decorators(fn)) for qn, fn in all_functions(m.trees[mod]) if qn == qualname]


def getter(m, mod, qualname):
    for fn, decs in func_variants(m, mod, qualname):
        if 'property' in decs:
            return fn
    raise AnalysisError(f'property getter {mod}:{qualname} vanished')


def setter(m, mod, qualname):
    name = qualname.rsplit('.', 1)[-1]
    for fn, decs in func_variants(m, mod, qualname):
        if f'{name}.setter' in decs:
            return fn
    raise AnalysisError(f'property setter {mod}:{qualname} vanished')


def attr_stores(m, attr, prefix='pytableaux'):
    """Every store to `<anything>.<attr>` in the package:
    (module, function-qualname, FunctionDef, target, statement)."""
    for mod, qn, fn in iter_functions(m, prefix):
        for t, st in stores(fn, nested=False):
            if isinstance(t, ast.Attribute) and t.attr == attr:
                yield mod, qn, fn, t, st


def method_calls_on_attr(m, attr, methods, prefix='pytableaux'):
    """Calls `<x>.<attr>.<method>(...)` for method in methods:
    (module, function-qualname, FunctionDef, call)."""
    for mod, qn, fn in iter_functions(m, prefix):
        for c in calls(fn, nested=False):
            f = c.func
            if isinstance(f, ast.Attribute) and f.attr in methods and isinstance(f.value, ast.Attribute) and f.value.attr == attr:
                yield mod, qn, fn, c


_SITES = {}


_NAME_SITES = {}


def helper_closure(m, module, cls_qual, owners):
    """Methods of class `cls_qual` (module `module`) that are private helpers of the `owners`: every call site of the
    method's name anywhere in the package (`<x>.<name>(...)`) lies inside an owner or inside another such helper.
    Returns the set of qualnames (owners included).  Used by who-may-write rules, so that moving a few lines of an
    allowed writer into a new private method of the same class stays allowed."""
    fns = dict(all_functions(m.trees[module]))
    cand = {qn for qn in fns if qn.startswith(cls_qual + '.') and qn.count('.') == cls_qual.count('.') + 1}
    ok = set(owners)
    sites = _SITES.get(id(m))
    if sites is None:
        sites = {}
        for mod, qn, fn in iter_functions(m):
            for c in calls(fn, nested=False):
                f = c.func
                if isinstance(f, ast.Attribute):
                    sites.setdefault(f.attr, []).append((mod, qn))
        _SITES.clear()
        _SITES[id(m)] = sites
    # private module-level functions of the same module, called by bare name
    modlevel = {qn for qn in fns if '.' not in qn and qn.startswith('_') and not qn.startswith('__')}
    nsites = _NAME_SITES.get(id(m))
    if nsites is None:
        nsites = {}
        for mod, qn, fn in iter_functions(m):
            for c in calls(fn, nested=False):
                if isinstance(c.func, ast.Name):
                    nsites.setdefault((mod, c.func.id), []).append(qn)
        _NAME_SITES.clear()
        _NAME_SITES[id(m)] = nsites
    changed = True
    while changed:
        changed = False
        for qn in sorted(cand - ok):
            name = qn.rsplit('.', 1)[1]
            if not name.startswith('_') or name.startswith('__'):
                continue
            ss = sites.get(name, [])
            if ss and all(mod == module and caller in ok for mod, caller in ss):
                ok.add(qn)
                changed = True
        for qn in sorted(modlevel - ok):
            callers = nsites.get((module, qn), [])
            if callers and all(c_ in ok for c_ in callers):
                ok.add(qn)
                changed = True
    return ok
