#!/usr/bin/env python3
"""DEVELOPMENT AID (not a registered check): compares the statically extracted
rule schemas with what the real rule classes produce on an example node."""
import json, subprocess, sys
sys.path.insert(0, '/verif')
from sa.ctx import Ctx
from sa.schema import fmt, Item, W_NODE, W_FRESH, W_EACH
repo = sys.argv[1] if len(sys.argv) > 1 else '/repo'
c = Ctx(repo)
def wf(w, modal):
    if w is None: return None
    if w == W_NODE: return 0 if modal else None
    if w == W_FRESH: return 'new'
    if w == W_EACH: return 'vis'
    return str(w)
static = {}
for lg in c.lgs:
    for gi, rc in lg.all_group_rules():
        a = c.lgs.rule_attrs(rc)
        if a.predicate or not (a.operator or a.quantifier): continue
        sch = c.ex.extract(rc)
        brs = []
        for br in sch.branches:
            items = []
            for it in br:
                if it.kind == 'access': items.append(['R', wf(it.w1, lg.modal), wf(it.w2, lg.modal)])
                else: items.append([fmt(it.s).replace('[fresh_const]', '[c]').replace('[anyconst]', '[c]').replace("[('fresh_const',)]",'[c]'), it.d, wf(it.w, lg.modal)])
            brs.append(sorted(items, key=str))
        static[f'{lg.name}|{rc.module}:{rc.qualname}'] = brs
code = r'''
import json
from pytableaux.logics import registry
from pytableaux.lang import *
from pytableaux.proof import Tableau, sdwnode, anode, Node
registry.import_all()
SYM = {'Negation': '~', 'Assertion': '*', 'Conjunction': '&', 'Disjunction': 'v', 'MaterialConditional': '>',
       'MaterialBiconditional': '<', 'Conditional': '$', 'Biconditional': '%', 'Possibility': 'P', 'Necessity': 'N'}
A=Atomic(0,0); B=Atomic(1,0); F=Predicate(0,0,1); x=Variable(0,0)
def f(s, inq=False):
    if s == A: return 'A'
    if s == B: return 'B'
    if isinstance(s, Predicated):
        p = s.params[0]
        return 'Fx' if isinstance(p, Variable) else 'Fx[c]'
    if isinstance(s, Quantified): return f'{s.quantifier.name[0]}x.{f(s.sentence)}'
    if isinstance(s, Operated):
        if len(s.operands)==1: return SYM[s.operator.name]+f(s.lhs)
        return '(' + f' {SYM[s.operator.name]} '.join(map(f, s.operands)) + ')'
    raise ValueError(s)
out={}
for n in registry:
    L=registry(n); modal=L.Meta.modal
    for g in L.Rules.groups:
        for rc in g:
            op=getattr(rc,'operator',None); q=getattr(rc,'quantifier',None)
            if getattr(rc,'predicate',None) or not (op or q): continue
            S = op(A) if op and op.arity==1 else (op(A,B) if op else q(x, F(x)))
            if rc.negated: S = ~S
            w = 0 if modal else None
            tab = Tableau(L)
            rule = tab.rules.get(rc)
            b = tab.branch()
            if modal: b.append(anode(0,1))
            b.append(sdwnode(S, rc.designation, w))
            brs=[]
            try:
                targets = list(rule._get_targets(b))
            except Exception as e:
                out[f'{L.Meta.name}|{rc.__module__}:{rc.__qualname__}'] = f'ERR {type(e).__name__} {e}'; continue
            if not targets:
                out[f'{L.Meta.name}|{rc.__module__}:{rc.__qualname__}'] = 'NO TARGETS'; continue
            t = targets[0]
            for grp in t['adds']:
                items=[]
                for nd in grp:
                    if 'world1' in nd: items.append(['R', 0 if nd['world1']==0 else 'new', 'new' if nd['world2']>=2 else nd['world2']])
                    else:
                        ww = nd.get('world')
                        if ww is not None: ww = 0 if ww==0 else ('vis' if ww==1 else 'new')
                        items.append([f(nd['sentence']), nd.get('designated'), ww])
                brs.append(sorted(items, key=str))
            out[f'{L.Meta.name}|{rc.__module__}:{rc.__qualname__}'] = brs
print(json.dumps(out))
'''
r = subprocess.run(['/venv/bin/python', '-c', code], env={'PYTHONPATH': repo, 'PATH': '/usr/bin:/bin'}, capture_output=True, text=True)
if r.returncode: print(r.stderr[-3000:]); sys.exit(1)
dyn = json.loads(r.stdout)
bad = 0
for k, v in dyn.items():
    s = static.get(k)
    if s != v:
        bad += 1
        if bad < 30: print('DIFF', k, '\n  dyn', v, '\n  sta', s)
print('rule slots', len(dyn), 'static', len(static), 'diffs', bad)
