#!/usr/bin/env python3
"""DEVELOPMENT AID (not a registered check): cross-validates the static
extractors against the running library, to make sure the static model is
faithful.  Runs pytableaux in a *subprocess*; the static side never imports it."""
import json, subprocess, sys, itertools
sys.path.insert(0, '/verif')
from sa.model import Model
from sa.logics import Logics
from sa.tables import Semantics
repo = sys.argv[1] if len(sys.argv) > 1 else '/repo'
m = Model(repo); lgs = Logics(m)
print(lgs.totals())
static = {}
for lg in lgs:
    sem = Semantics(lgs, lg)
    d = dict(name=lg.name, modal=lg.modal, quantified=lg.quantified, values=sem.V, designated=sorted(lg.designated),
             unassigned=lg.unassigned, tables={op: ''.join(t.values()) for op, t in sem.tables.items()},
             closure=[f'{c.module}:{c.qualname}' for c in lg.closure],
             groups=[[f'{c.module}:{c.qualname}' for c in g] for g in lg.groups],
             attrs={f'{c.module}:{c.qualname}': list(vars(lgs.rule_attrs(c)).values()) for g in lg.groups for c in g},
             gen={k: {''.join(sorted(S)): v for S, v in t.items()} for k, t in sem.gen.items()},
             ext=sorted(lg.extension_of), tf=f'{lg.tfcls.module}:{lg.tfcls.qualname}', acc=lg.accesscls.qualname)
    static[lg.module] = d
code = r'''
import json, itertools
from pytableaux.logics import registry
from pytableaux.lang import Operator, Quantifier, Atomic, Predicated, Predicate, Constant, Variable, Quantified
registry.import_all()
def cn(c): return f'{c.__module__}:{c.__qualname__}'
out={}
for n in registry:
    L=registry(n); M=L.Meta
    vals=[v.name for v in M.values]
    d=dict(name=M.name, modal=M.modal, quantified=M.quantified, values=vals,
      designated=sorted(v.name for v in M.designated_values), unassigned=M.unassigned_value.name,
      tables={o.name: ''.join(v.name for v in L.Model.truth_table(o).outputs) for o in list(Operator)[:8]},
      closure=[cn(c) for c in L.Rules.closure], groups=[[cn(c) for c in g] for g in L.Rules.groups],
      attrs={cn(c): [getattr(c,k,None) and (getattr(c,k).name if hasattr(getattr(c,k),'name') else getattr(c,k)) if k in ('operator','quantifier','predicate') else getattr(c,k,None) for k in ('operator','quantifier','predicate','negated','designation')] for g in L.Rules.groups for c in g},
      ext=sorted(M.extension_of), tf=cn(L.Model.TruthFunction), acc=L.Model.Access.__qualname__)
    gen={}
    F=Predicate(0,0,1); x=Variable(0,0)
    subsets=[c for r in range(len(vals)+1) for c in itertools.combinations(vals,r)]
    if M.quantified:
        for q in Quantifier:
            gen[q.name]={}
            for S in subsets:
                mod=L.Model()
                cs=[Constant(i,0) for i in range(len(S))]
                for c,v in zip(cs,S): mod.set_predicated_value(F(c), v, world=0)
                mod.finish()
                try: gen[q.name][''.join(sorted(S))]=mod.value_of(q(x,F(x))).name
                except Exception as e: gen[q.name][''.join(sorted(S))]=None
    if M.modal:
        a=Atomic(0,0)
        for o in (Operator.Possibility, Operator.Necessity):
            gen[o.name]={}
            for S in subsets:
                mod=L.Model()
                # world 0 sees worlds 1..k only; avoid frame closure by checking at a fresh-root under K-like frames
                for i,v in enumerate(S): mod.set_atomic_value(a, v, world=i+1); mod.R.add((0,i+1))
                mod.set_atomic_value(a, vals[0], world=0)
                mod.finish()
                seen={mod.value_of(a, world=w).name for w in mod.R[0]}
                gen[o.name].setdefault('_seen',{})[''.join(sorted(S))]=''.join(sorted(seen))
                try: gen[o.name][''.join(sorted(S))]=mod.value_of(o(a)).name
                except Exception as e: gen[o.name][''.join(sorted(S))]=None
    d['gen']=gen
    out[n]=d
print(json.dumps(out))
'''
r = subprocess.run(['/venv/bin/python', '-c', code], env={'PYTHONPATH': repo, 'PATH': '/usr/bin:/bin'}, capture_output=True, text=True)
if r.returncode: print(r.stderr[-3000:]); sys.exit(1)
dyn = json.loads(r.stdout)
bad = 0
for n, d in dyn.items():
    s = static[n]
    for k in d:
        if k == 'gen':
            for g, t in d['gen'].items():
                seen = t.pop('_seen', None)
                for S, v in t.items():
                    key = seen[S] if seen else S      # frames may add worlds (reflexive etc.): compare at the set actually seen
                    if s['gen'][g].get(key) != v:
                        bad += 1; print('GEN DIFF', n, g, S, 'seen', key, 'dyn', v, 'static', s['gen'][g].get(key))
            continue
        sv = s[k]
        if sv != d[k]:
            bad += 1
            if k == 'attrs':
                for c in d[k]:
                    if d[k][c] != sv.get(c): print('ATTR DIFF', n, c, 'dyn', d[k][c], 'static', sv.get(c))
            else: print('DIFF', n, k, 'dyn', d[k], 'static', sv)
print('logics', len(dyn), 'diffs', bad)
