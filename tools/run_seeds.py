#!/usr/bin/env python3
"""Run static checks against every seeded change (or the named ones): the patch is applied to a scratch
copy of /repo/pytableaux (never to /repo itself), checks run with --repo, the copy is removed.
usage: run_seeds.py [SEED-ID ...]   -> table of which checks detect which seed; updates meta.json 'detected_by'."""
import json, os, shutil, subprocess, sys, tempfile, glob, concurrent.futures as cf
ALL = [f'C{i:02d}' for i in range(1, 21)]
def one(sid):
    d = f'/verif/seeded/{sid}'
    meta = json.load(open(f'{d}/meta.json'))
    td = tempfile.mkdtemp(prefix='seedrun-')
    try:
        shutil.copytree('/repo/pytableaux', f'{td}/pytableaux', ignore=shutil.ignore_patterns('__pycache__'))
        r = subprocess.run(['git', 'apply', '--unsafe-paths', f'--directory={td}', f'{d}/patch.diff'], capture_output=True, text=True, cwd=td)
        if r.returncode:
            r = subprocess.run(['patch', '-p1', '-d', td, '-i', f'{d}/patch.diff'], capture_output=True, text=True)
            assert r.returncode == 0, (sid, r.stdout, r.stderr)
        res = {}
        for c in ALL:
            if not os.path.exists(f'/verif/sa/props/{c.lower()}.py'): continue
            r = subprocess.run(['/venv/bin/python', '-m', 'sa', c, '--repo', td, '--no-evidence'], cwd='/verif', capture_output=True, text=True)
            lines = [l for l in r.stdout.splitlines() if l.startswith(('  C', 'ANALYSIS-ERROR'))]
            res[c] = (r.returncode, lines[:2])
        return sid, meta, res
    finally:
        shutil.rmtree(td, ignore_errors=True)
ids = sys.argv[1:] or sorted(os.path.basename(p) for p in glob.glob('/verif/seeded/*') if os.path.isdir(p))
with cf.ThreadPoolExecutor(max_workers=4) as ex:
    for sid, meta, res in ex.map(one, ids):
        det = [c for c, (rc, _) in res.items() if rc == 1]
        err = [c for c, (rc, _) in res.items() if rc == 2]
        meta['detected_by'] = det
        meta['checks'] = {c: dict(rc=rc, report=lines) for c, (rc, lines) in res.items() if rc != 0}
        json.dump(meta, open(f'/verif/seeded/{sid}/meta.json', 'w'), indent=1)
        own = meta['property']
        print(f'{sid:8} property={own} own-check={"DETECTED" if own in det else "missed"} detected_by={det} analysis_errors={err}')
        for c in det[:3]:
            print('      ', res[c][1][0][:200] if res[c][1] else '')
