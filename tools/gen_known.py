#!/usr/bin/env python3
"""Authoring tool (run by hand; never at check time): writes known_findings.json.

Only findings that match one of the two triaged, suite-pinned root causes are
accepted; anything else is refused, so a new violation can never be whitelisted
by re-running this tool blindly.
  F6  FDE-family conjunction/disjunction are the linear-order tables (N&B=N, NvB=B)
      instead of the FDE lattice; pinned by test/logics/test_fde.py::TestTables.
      Consequences: FDE/KFDE/TFDE/S4FDE/S5FDE rules inexact exactly where N meets B.
  F7  B3E-family BiconditionalUndesignated / BiconditionalNegatedDesignated inherit the
      one-branch schema of BiconditionalDesignated (unsound at FT,NT,TF,TN); pinned by
      test/logics/test_b3e.py::...::test_valid_Biconditional_Elimination_3_auto.
"""
import json, re, subprocess, sys
sys.path.insert(0, '/verif')
FDE = {'FDE', 'KFDE', 'TFDE', 'S4FDE', 'S5FDE'}
B3E = {'B3E', 'KB3E', 'TB3E', 'S4B3E', 'S5B3E'}
PROPS = [f'C{i:02d}' for i in range(1, 21)]
fixed = [
 dict(property='C06', status='fixed', commit='551db79', key='C06.R1/Branch.append/constant mark not above everything on the branch',
      what='fixed: property=C06 551db79 Branch.new_constant() returned a constant already on the branch (append b, then a: "new" constant b again); also reported by C01.R7'),
 dict(property='C01', status='fixed', commit='551db79', key='C01.R7/C06.R1/Branch.append/constant mark not above everything on the branch',
      what='fixed: property=C01 551db79 non-fresh witness: CFOL/K3 reported ~Fb, Ga, ExFx |- A valid'),
 dict(property='C09', status='fixed', commit='409a3c9', key='C09.R1/pytableaux.logics.kfde:Rules.PossibilityDesignated.group_score/candidate_score',
      what='fixed: property=C09 409a3c9 PossibilityDesignated.group_score compared target[candidate_score] (None when is_rank_optim is off): TypeError for K: MB |- A'),
 dict(property='C16', status='fixed', commit='548de60', key='C16.R1/pytableaux.proof.tableaux:Tableau.Tree._build_branches/tree.descendant_node_count',
      what='fixed: property=C16 548de60 tree.descendant_node_count assigned (not accumulated) inside the child loop'),
 dict(property='C18', status='fixed', commit='e589df3', key='C18.R1/linqset/__setitem__',
      what='fixed: property=C18 e589df3 linqset item assignment left the hash table stale (linqset([1,2,3])[0]=9: 1 in l, 9 not in l)'),
 dict(property='C18', status='fixed', commit='84f9ce0', key='C18.R3/qset.__setitem_slice__',
      what='fixed: property=C18 84f9ce0 qset([1,2,3,4])[0:2]=[7,7] produced [7,7,3,4]'),
 dict(property='C01', status='fixed', commit='677ec4e', key='C01.R8/pytableaux.logics.cpl:Rules.IdentityIndiscernability._get_node_targets',
      what='fixed: property=C01 677ec4e IdentityIndiscernability substituted into predicate nodes at other worlds: K reported a=b, PFa |- Fb valid'),
 dict(property='C18', status='fixed', commit='e589df3', key='C18.R6/linqset/__setitem__',
      what='fixed: property=C18 e589df3 (same defect, folded step check) linqset item assignment left the hash table stale'),
 dict(property='C18', status='fixed', commit='84f9ce0', key='C18.R5/qset/__setitem__',
      what='fixed: property=C18 84f9ce0 (same defect, folded step check) qset slice assignment accepted repeated arriving values'),
 dict(property='C09', status='fixed', commit='73d1a2e', key='C09.R4/NodeCount.isleast',
      what='fixed: property=C09 73d1a2e NodeCount.isleast subscripted the defaultdict counter and so inserted a zero count: K reported La, MLb, MNa |- b invalid or valid depending on premise order / is_rank_optim'),
 dict(property='C02', status='fixed', commit='73d1a2e', key='C02.R4/NodeCount.isleast',
      what='fixed: property=C02 73d1a2e same defect: box-type nodes starved, "invalid" verdicts from unsaturated branches'),
 dict(property='C14', status='fixed', commit='e7c517e', key='C14.R4/DequeCache.__setitem__/raises IndexError: pop from an empty deque',
      what='fixed: property=C14 e7c517e ITEM_CACHE_SIZE=0: DequeCache.__setitem__ evicted from an empty deque, every lexical construction raised IndexError'),
 dict(property='C13', status='fixed', commit='f7615b2', key='C13.R2/DefaultParser._read_predicated/self.predicates.add',
      what='fixed: property=C13 f7615b2 Parser(predicates=Predicates.EMPTY)(\'Fm\') raised AttributeError (Frozen has no add)'),
 dict(property='C20', status='fixed', commit='be72045', key='C20.R4/D/finish/access pairs [(0, 1)], frames at worlds [0, 1]',
      what='fixed: property=C20 be72045 D models: the world SerialAccess.enforce() adds after _complete_frames had no frame -- get_data() omitted it from Worlds (Fm |- b: Worlds [0,1], Access [(0,1),(1,2)]) and listed it once a sentence had been evaluated there'),
 dict(property='C08', status='fixed', commit='be72045', key='C08.R3/D/finish/access pairs [(0, 1)], frames at worlds [0, 1]',
      what='fixed: property=C08 be72045 same defect: no self-identity / defaults at the serial world, so []m=m was false at the world that sees it'),
 dict(property='C04', status='fixed', commit='506067a', key='C04.R7/serial_rule/worlds without successor [1, 2], worlds with sentence nodes [0, 1, 2], last history entry: serial-same-branch, world limit exceeded: False',
      what='fixed: property=C04 506067a access.Serial refused to apply whenever it was the last rule applied to the branch: with two unserial worlds one was never served; D reported Ma, MKLbNMb |- c invalid (valid without the first premise)'),
 dict(property='C02', status='fixed', commit='506067a', key='C02.R6/serial_rule/worlds without successor [1, 2], worlds with sentence nodes [0, 1, 2], last history entry: serial-same-branch, world limit exceeded: False',
      what='fixed: property=C02 506067a same defect: the open branch was unsaturated and its model no countermodel'),
 dict(property='C14', status='fixed', commit='60a4cb6', key='C14.R5/Predicate((-1, 0, 2),) with the spec never cached',
      what='fixed: property=C14 60a4cb6 Predicate((-1,0,2)) / Predicated(*s.spec) / LexicalAbc(s.ident) for Identity and Existence sentences raised ValueError once ~1000 later items had evicted the system predicate spec from the construction cache'),
 dict(property='C18', status='fixed', commit='895ee8f', key='C18.R9/Predicates/setitem/accepted-conflict',
      what='fixed: property=C18 895ee8f Predicates([(1,0,1),(2,0,1)])[0:2] = [(0,0,1),(0,0,2)] was accepted: arriving predicates were checked against the store but not against each other, leaving two predicates with one symbol and different arities'),
 dict(property='C14', status='fixed', commit='439b412', key='C14.R3/readonly/Operator: changing an attribute after initialisation',
      what='fixed: property=C14 439b412 Operator / Quantifier members stayed writable after initialisation (Operator.Negation.arity = 5 succeeded): LexicalEnum used a guard keyed on LexicalAbcMeta._readonly, which is never set; NoSetAttr._clschecker also passed its arguments in the wrong order'),
 dict(property='C02', status='fixed', commit='4d7848e', key='C02.R8/Rules.NecessityDesignated',
      what="fixed: property=C02 4d7848e K/D/T/S4/S5 (and the many-valued modal logics) reported 'La, Mb, Mc, M((d & Lb1) & Mc1) |- e' invalid with an unsaturated open branch whose model is not a countermodel: the box rule only served least-applied-to nodes, and once the least-applied one had no world left the others were never taken up again"),
 dict(property='C14', status='fixed', commit='02adc18', key='C14.R3/readonly/Operated: re-assigning an attribute with an equal but different object',
      what="fixed: property=C14 02adc18 (~A).operator = 'Negation' was accepted and put a str in place of the operator (Atomic(0,0).index = 0.0 a float in place of the index): a finished item stored any value that compared equal to the current one"),
 dict(property='C14', status='fixed', commit='0ef2104', key='C14.R1/compare_ops/hashitem across processes',
      what="fixed: property=C14 0ef2104 an Atomic (any lexical item or Argument) pickled in one process could not be unpickled in another (AttributeError: '_hash' is read-only): the cached hash was hash((Lexical, sort_tuple)), and a class object hashes by its address"),
]
CLASSICAL = ('CPL', 'CFOL', 'K', 'D', 'T', 'S4', 'S5')
def triage(prop, f):
    k = f['key']; d = f.get('detail', {})
    lg, rule, dirn, val = d.get('logic'), d.get('rule'), d.get('direction'), d.get('valuation', '')
    if prop == 'C07' and k.startswith('C07.R1/FDE/') and d.get('args') in ('NB', 'BN'):
        return 'F6: FDE %s(%s)=%s, lattice value %s (tables pinned by test_fde.TestTables)' % (d['operator'], d['args'], d['got'], d['want'])
    if lg in FDE and 'N' in val and 'B' in val:
        return f'F6: {lg} rule {rule} {dirn} at {val} (FDE-family linear-order tables vs lattice rules; pinned by test_fde.TestTables)'
    if lg in B3E and rule in ('BiconditionalUndesignated', 'BiconditionalNegatedDesignated') and dirn == 'unsound' and val in ('FT', 'NT', 'TF', 'TN'):
        return f'F7: {lg} rule {rule} unsound at {val} (one-branch schema inherited; pinned by test_b3e Biconditional_Elimination_3)'
    if prop == 'C08' and k.startswith('C08.R5/') and d.get('logic') in CLASSICAL and d.get('kind') in ('symmetric', 'respects'):
        return (f"F15: {d['logic']} model, values set as [{d['scenario']}]: after finish() identity is "
                + ('not symmetric' if d['kind'] == 'symmetric' else 'not respected by a predicate extension (only whole-sale substitution, one direction)')
                + ' -- e.g. CFOL model with a=b true evaluates b=a false; repairing the model alone would make the prover\'s open branch for a=b |- b=a (IdentityIndiscernability never rewrites negated predications) fail to build')
    if prop == 'C14' and k.startswith('C14.R5/non-int spec/'):
        return ('F18: ' + k.split('/', 2)[2] + ': a coordinate that merely equals an int (1.0, 1+0j: same hash) is refused with TypeError on a cold cache '
                'but rides on the cached int spec when that one was constructed before -- e.g. Constant(2.0, 57) raises, after Constant(2, 57) it returns the constant; '
                'not repaired: the lookup sits on the hot construction path and the inputs are non-canonical')
    if prop == 'C14' and k.startswith('C14.R3/readonly/') and k.endswith(': planting a lazily computed attribute'):
        cls = k.split('/')[2].split(':')[0]
        return (f'F21: {cls}: a lazily computed derived attribute can be planted before its first read -- e.g. s = A & B; s._atomics = frozenset(); s.atomics is then empty '
                '(the guarded __setattr__ lets any first assignment through because constructors and the lazy getter use it too); not repaired: refusing private first '
                'assignments breaks unpickling, which restores the slots through setattr')
    return None
out = list(fixed); refused = []
for p in PROPS:
    r = subprocess.run(['/venv/bin/python', '-m', 'sa', p, '--no-evidence', '--tier', 'quick'], cwd='/verif', capture_output=True, text=True)
    if r.returncode == 2:
        print(p, 'ANALYSIS-ERROR / missing:', r.stdout.strip().splitlines()[-1:]); continue
    try:
        data = json.load(open(f'/verif/out/{p}.replay.json')) if r.returncode == 1 else {'violations': []}
    except FileNotFoundError:
        data = {'violations': []}
    # findings already known are not in the replay file: re-add from existing file
    for f in data['violations']:
        w = triage(p, f)
        if w: out.append(dict(property=p, status='known', key=f['key'], what=w))
        else: refused.append((p, f['key'], f['msg'][:100]))
try:
    old = json.load(open('/verif/known_findings.json'))['findings']
except Exception:
    old = []
have = {(e['property'], e['key']) for e in out}
for e in old:
    if e.get('status') == 'known' and (e['property'], e['key']) not in have:
        out.append(e)
out.sort(key=lambda e: (e['property'], e['status'], e['key']))
json.dump(dict(_comment='Known findings (genuine defects recorded, not repaired) and fixed defects. Authored with tools/gen_known.py after triage; '
                        'never written at check time. `known` entries silence exactly one finding key each; `fixed` entries suppress nothing.',
               findings=out), open('/verif/known_findings.json', 'w'), indent=1)
print('known', sum(e['status'] == 'known' for e in out), 'fixed', sum(e['status'] == 'fixed' for e in out))
for r_ in refused[:40]: print('REFUSED (not a triaged finding):', r_)
print('refused', len(refused))
