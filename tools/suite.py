#!/usr/bin/env python3
"""Run the repository's pinned suite on a tree (default /repo) and compare with
/root/.vp/BASELINE.json: every stable_pass test must pass.  Development aid
only -- it is NOT part of any registered check (the checks are static)."""
import json, os, subprocess, sys, tempfile, xml.etree.ElementTree as ET
repo = sys.argv[1] if len(sys.argv) > 1 else '/repo'
jobs = sys.argv[2] if len(sys.argv) > 2 else '12'
base = json.load(open('/root/.vp/BASELINE.json'))
with tempfile.TemporaryDirectory() as td:
    xml = os.path.join(td, 'r.xml')
    env = dict(os.environ); env.pop('PYTABLEAUX_VERIF', None)
    p = subprocess.run(['/venv/bin/python', '-m', 'pytest', '-q', '-p', 'no:cacheprovider', '--timeout=900',
                        '--continue-on-collection-errors', '-n', jobs, f'--junitxml={xml}'],
                       cwd=repo, env=env, stdout=subprocess.PIPE, stderr=subprocess.STDOUT, text=True)
    print(p.stdout[-1500:])
    ok = set()
    for tc in ET.parse(xml).getroot().iter('testcase'):
        if not any(c.tag in ('failure', 'error', 'skipped') for c in tc):
            ok.add(f"{tc.get('classname')}::{tc.get('name')}")
missing = sorted(set(base['stable_pass']) - ok)
print('stable_pass', len(base['stable_pass']), 'passed-now', len(ok), 'regressions', len(missing))
for m in missing[:40]: print('  REGRESSION', m)
sys.exit(1 if missing else 0)
