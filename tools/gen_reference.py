#!/usr/bin/env python3
"""Authoring tool for /verif/sa/reference_tables.json (run by hand, result committed).

The tables are written from the literature definitions below, NOT from the
repository's code.  Sources: Priest, An Introduction to Non-Classical Logic (FDE,
K3, LP, L3, RM3, the lattice reading of FDE); Bochvar/Halldén (K3W, B3E); Goedel
(G3); Post 1921 (P3: cyclic negation, max disjunction, A&B := ~(~A v ~B));
Caret, "Hybridized Paracomplete and Paraconsistent Logics" (MH, NH); the
project's doc/logics/go.rst prose (GO: binary connectives are classical on the
asserted values; conditional is T on equal values, else material).
Defined operators everywhere:  A > B := ~A v B,  A < B := (A > B) & (B > A),
A <-> B := (A -> B) & (B -> A); Assertion is the identity unless native.
"""
import itertools, json, sys

F, N, B, T = 'F', 'N', 'B', 'T'

def table(vals, f, arity):
    return {''.join(t): f(*t) for t in itertools.product(vals, repeat=arity)}

def linear(vals):
    idx = {v: i for i, v in enumerate(vals)}
    return (lambda a, b: vals[min(idx[a], idx[b])]), (lambda a, b: vals[max(idx[a], idx[b])])

def make(vals, designated, neg, conj, disj, cond=None, assertion=None, bicond=None):
    assertion = assertion or (lambda a: a)
    mcond = lambda a, b: disj(neg(a), b)
    mbicond = lambda a, b: conj(mcond(a, b), mcond(b, a))
    cond = cond or mcond
    bicond = bicond or (lambda a, b: conj(cond(a, b), cond(b, a)))
    return dict(values=list(vals), designated=sorted(designated), tables=dict(
        Assertion=table(vals, assertion, 1), Negation=table(vals, neg, 1),
        Conjunction=table(vals, conj, 2), Disjunction=table(vals, disj, 2),
        MaterialConditional=table(vals, mcond, 2), MaterialBiconditional=table(vals, mbicond, 2),
        Conditional=table(vals, cond, 2), Biconditional=table(vals, bicond, 2)))

ref = {}
# --- classical
V2 = (F, T); c2, d2 = linear(V2); n2 = lambda a: {F: T, T: F}[a]
ref['CPL'] = make(V2, {T}, n2, c2, d2)
ref['CFOL'] = ref['CPL']
# --- FDE: the four-valued *lattice* (N and B incomparable; F bottom, T top)
V4 = (F, N, B, T)
def meet4(a, b):
    if a == b: return a
    if F in (a, b): return F
    if a == T: return b
    if b == T: return a
    return F            # N meet B
def join4(a, b):
    if a == b: return a
    if T in (a, b): return T
    if a == F: return b
    if b == F: return a
    return T            # N join B
n4 = lambda a: {F: T, T: F, N: N, B: B}[a]
ref['FDE'] = make(V4, {T, B}, n4, meet4, join4)
# --- strong Kleene / LP
VK = (F, N, T); ck, dk = linear(VK); nk = lambda a: {F: T, T: F, N: N}[a]
ref['K3'] = make(VK, {T}, nk, ck, dk)
VL = (F, B, T); cl, dl = linear(VL); nl = lambda a: {F: T, T: F, B: B}[a]
ref['LP'] = make(VL, {T, B}, nl, cl, dl)
# --- Lukasiewicz L3:  a -> b = min(1, 1 - a + b)
num = {F: 0.0, N: 0.5, T: 1.0}; inv = {0.0: F, 0.5: N, 1.0: T}
ref['L3'] = make(VK, {T}, nk, ck, dk, cond=lambda a, b: inv[min(1.0, 1.0 - num[a] + num[b])])
# --- RM3 (Sobocinski): a -> b = F if a > b ; B if a = b = B ; T otherwise
ordl = {F: 0, B: 1, T: 2}
ref['RM3'] = make(VL, {T, B}, nl, cl, dl,
                  cond=lambda a, b: F if ordl[a] > ordl[b] else (B if a == b == B else T))
# --- weak Kleene (Bochvar internal): N is infectious
cw = lambda a, b: N if N in (a, b) else ck(a, b)
dw = lambda a, b: N if N in (a, b) else dk(a, b)
ref['K3W'] = make(VK, {T}, nk, cw, dw)
ref['K3WQ'] = ref['K3W']
# --- Bochvar external: assertion *A is T iff A is T, else F; A -> B := ~*A v *B
ast_ = lambda a: T if a == T else F
ref['B3E'] = make(VK, {T}, nk, cw, dw, assertion=ast_, cond=lambda a, b: dw(nk(ast_(a)), ast_(b)))
# --- Goedel G3: ~a = T iff a = F ; a -> b = T if a <= b else b
ng = lambda a: T if a == F else F
ordk = {F: 0, N: 1, T: 2}
ref['G3'] = make(VK, {T}, ng, ck, dk, cond=lambda a, b: T if ordk[a] <= ordk[b] else b)
# --- Post P3: cyclic negation T->N->F->T, max disjunction, A & B := ~(~A v ~B)
np_ = lambda a: {T: N, N: F, F: T}[a]
ref['P3'] = make(VK, {T}, np_, lambda a, b: np_(dk(np_(a), np_(b))), dk)
# --- MH (paracomplete hybrid): K3 except N v N = F ; a -> b = F iff a = T and b != T, else T
ref['MH'] = make(VK, {T}, nk, ck, lambda a, b: F if a == b == N else dk(a, b),
                 cond=lambda a, b: F if (a == T and b != T) else T)
# --- NH (paraconsistent hybrid): LP except B & B = T ; a -> b = F iff a != F and b = F, else T
ref['NH'] = make(VL, {T, B}, nl, lambda a, b: T if a == b == B else cl(a, b), dl,
                 cond=lambda a, b: F if (a != F and b == F) else T)
# --- GO: conjunction/disjunction are min/max of the *asserted* values (assertion as in B3E);
#         a -> b = T if a = b, else ~a v b
cgo = lambda a, b: ck(ast_(a), ast_(b)); dgo = lambda a, b: dk(ast_(a), ast_(b))
ref['GO'] = make(VK, {T}, nk, cgo, dgo, assertion=ast_, cond=lambda a, b: T if a == b else dgo(nk(a), b))
# GO's biconditional is the conjunction of the two conditionals (default)
out = dict(_comment='Reference truth tables authored from the literature by tools/gen_reference.py; '
                    'keys are argument value names concatenated, e.g. "NB".', logics=ref)
json.dump(out, open('/verif/sa/reference_tables.json', 'w'), indent=1, sort_keys=True)
print('wrote', len(ref), 'logics')
