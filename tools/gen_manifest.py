#!/usr/bin/env python3
"""Regenerate MANIFEST.json from the check modules present under sa/props."""
import importlib, json, os, sys
sys.path.insert(0, '/verif')
TECH = {
 'C01': 'static analysis: table extraction + exactness obligations (sound half), who-may-call, folded engine definitions',
 'C02': 'static analysis: exactness obligations (invertible half), folded literal reading, reader coverage',
 'C03': 'static analysis: operator-rule exactness, closure exactness, abstract local-expansion termination',
 'C04': 'static analysis: rule-schema extraction by partial evaluation + truth-table extraction, exhaustive agreement check',
 'C05': 'static analysis: folded closure partner tables vs extracted negation table, exhaustive over literal subsets',
 'C06': 'static analysis: inductive invariant by folding Branch.append over abstract pre-states; who-may-write; witness def-use',
 'C07': 'static analysis: truth-table extraction vs reference tables; definitional identities',
 'C08': 'static analysis: dispatch structure, generaliser extraction, finish ordering, Horn clauses of Access.enforce',
 'C09': 'static analysis: nullable-value flow of option-dependent target keys; option confinement',
 'C10': 'static analysis: trunk/closure agreement (reflexivity); symbol-blindness lint with positive fixture',
 'C11': 'static analysis: declared-extension graph; sub-valuation proof on extracted tables or propositional witness search',
 'C12': 'static analysis: writer/parser symbol-table agreement, injectivity, grammar order agreement',
 'C13': 'static analysis: exception-escape over the parser call graph, store-API compatibility, binding typestate, loop progress',
 'C14': 'static analysis: key-field sibling agreement, eq/hash pairing, immutability guards, cache paired update',
 'C15': 'static analysis: substitution recursion shape, derived-attribute matrix',
 'C16': 'static analysis: loop-overwrite dataflow lint, single-writer rules, fork-copies-parent',
 'C17': 'static analysis: typestate of the tableau flag word (folded predicates, who-may-write with dominating guards)',
 'C18': 'static analysis: paired-update and check-before-mutate rules over the ordered-set containers',
 'C19': 'static analysis: visitor/dispatch exhaustiveness, string-table key completeness',
 'C20': 'static analysis: shared-store and sorted-listing rules of the model export',
}
NA_REASON = {}
props = [json.loads(l) for l in open('/verif/properties.jsonl')]
checks, na = [], []
for p in props:
    pid = p['id']
    path = f'/verif/sa/props/{pid.lower()}.py'
    if os.path.exists(path):
        mod = importlib.import_module(f'sa.props.{pid.lower()}')
        checks.append(dict(
            property_id=pid,
            quick_cmd=f'/venv/bin/python -m sa {pid} --tier quick',
            thorough_cmd=f'/venv/bin/python -m sa {pid} --tier thorough',
            evidence_file=f'/verif/evidence/{pid}.json',
            replay_cmd_template=f'/venv/bin/python -m sa {pid} --replay {{path}}',
            engine='sa',
            level_claimed=dict(category=mod.LEVEL, text=mod.EXPLANATION, design_ref=f'DESIGN.md section 3, {pid}'),
            level_note='Trusted base: ' + '; '.join(mod.TRUSTED) + '. Assumes: ' + '; '.join(mod.ASSUMPTIONS),
            technique=TECH[pid]))
    else:
        na.append(dict(property_id=pid, reason=NA_REASON.get(pid, 'static check for this property is not built yet; see DESIGN.md section 3 for the planned rules')))
man = dict(
    version=1,
    setup_cmd='/venv/bin/python -c "import sys, ast; assert sys.version_info >= (3, 12), sys.version; import sa.core" ',
    hooks=dict(guard='PYTABLEAUX_VERIF', enable='none: the checks are static and need no hooks in /repo (no source_commits)',
               baseline_off_cmd='cd /repo && /venv/bin/python -m pytest -ra -q -p no:cacheprovider --timeout=900 --continue-on-collection-errors',
               source_commits=[], add_only=True),
    engines=[dict(name='sa', path='/verif/sa', serves_properties=[c['property_id'] for c in checks],
                  kind_free_text='project-specific static analyser over the ast of /repo/pytableaux: source model with C3 MRO (E0), logic table (E1), '
                                 'rule-schema extractor (E2), truth-table/generaliser extractor (E3), obligation engine (E4), structural rule library (E5); '
                                 'never imports or runs pytableaux')],
    checks=checks,
    notes='All checks are static analysis (family: static analysis). Known findings: /verif/known_findings.json. '
          'Exit 2 + ANALYSIS-ERROR means the analysis could not be carried out (not a verdict).',
    not_applicable=na)
json.dump(man, open('/verif/MANIFEST.json', 'w'), indent=1)
print('checks', len(checks), 'not_applicable', [x['property_id'] for x in na])
