#!/usr/bin/env python3
"""Run every static check against behaviour-preserving refactorings (patches produced by sub-agents, or the ones kept
under /verif/refactors/<id>/patch.diff): each is applied to a scratch copy of /repo/pytableaux (never /repo itself).
A check must stay silent: exit 1 (VIOLATION) is a false alarm, exit 2 (ANALYSIS-ERROR) means the check cannot analyse the
refactored code (brittle extraction).
usage: run_refactors.py [--keep] [DIFF-or-ID ...]     (no args: every /verif/refactors/*/patch.diff)"""
import json, os, shutil, subprocess, sys, tempfile, glob, concurrent.futures as cf
ALL = os.environ['SA_CHECKS'].split(',') if os.environ.get('SA_CHECKS') else [f'C{i:02d}' for i in range(1, 21)]   # SA_CHECKS=C12,C18: only these
args = [a for a in sys.argv[1:] if not a.startswith('--')]
def one(path):
    if not os.path.exists(path):
        path = f'/verif/refactors/{path}/patch.diff'
    td = tempfile.mkdtemp(prefix='refrun-')
    try:
        shutil.copytree('/repo/pytableaux', f'{td}/pytableaux', ignore=shutil.ignore_patterns('__pycache__'))
        r = subprocess.run(['patch', '-p1', '-d', td, '-i', path], capture_output=True, text=True)
        if r.returncode:
            return path, None, r.stdout[-300:]
        res = {}
        for c in ALL:
            r = subprocess.run(['/venv/bin/python', '-m', 'sa', c, '--repo', td, '--no-evidence'], cwd='/verif', capture_output=True, text=True)
            lines = [l for l in r.stdout.splitlines() if l.startswith(('  C', 'ANALYSIS-ERROR'))]
            if r.returncode:
                res[c] = (r.returncode, lines[:3])
        return path, res, ''
    finally:
        shutil.rmtree(td, ignore_errors=True)
paths = args or sorted(glob.glob('/verif/refactors/*/patch.diff'))
bad = 0
with cf.ThreadPoolExecutor(max_workers=int(os.environ.get('SA_WORKERS', '7'))) as ex:
    for path, res, err in ex.map(one, paths):
        if res is None:
            print(f'{path}: PATCH DOES NOT APPLY {err}'); bad += 1; continue
        fa = [c for c, (rc, _) in res.items() if rc == 1]
        ae = [c for c, (rc, _) in res.items() if rc == 2]
        print(f'{path}: false_alarms={fa} analysis_errors={ae}')
        for c in fa + ae:
            for l in res[c][1][:2]:
                print('      ', c, l[:260])
        bad += bool(fa or ae)
        if os.path.dirname(path).startswith('/verif/refactors/'):
            mp = os.path.join(os.path.dirname(path), 'meta.json')
            meta = json.load(open(mp)) if os.path.exists(mp) else {}
            meta.update(false_alarms=fa, analysis_errors=ae)
            json.dump(meta, open(mp, 'w'), indent=1)
print('refactorings with a non-silent check:', bad, 'of', len(paths))
