#!/usr/bin/env python3
"""Confirm a seeded breaking change produced by a sub-agent and file it under /verif/seeded/<id>/.
usage: confirm_seed.py <worktree> <pid-lower e.g. c17> <seed-id e.g. C17-a> "<needs>" [CHECKS...]
Steps (all in scratch worktrees outside /repo and /verif, removed afterwards):
 1 patch applies to a clean checkout of /repo HEAD        2 demo passes on the clean checkout
 3 demo fails on the patched checkout                     4 the pinned suite still passes on the patched checkout
 5 run the named static checks (default: the property's) against the patched checkout and record what they report
"""
import json, os, shutil, subprocess, sys, tempfile
wt, pid, sid, needs = sys.argv[1:5]
checks = sys.argv[5:] or [pid.upper()]
patch = open(f'{wt}/patch_{pid}.diff').read()
demo = f'{wt}/demo_{pid}.py'
def sh(cmd, **kw):
    return subprocess.run(cmd, shell=True, capture_output=True, text=True, **kw)
clean = tempfile.mkdtemp(prefix='seed-clean-')
os.rmdir(clean)
r = sh(f'git -C /repo worktree add --detach {clean} HEAD'); assert r.returncode == 0, r.stderr
ran = []
try:
    shutil.copy(demo, f'{clean}/demo.py')
    r = sh(f'PYTHONPATH={clean} /venv/bin/python demo.py', cwd=clean); ran.append(f'clean demo rc={r.returncode}')
    assert r.returncode == 0, ('demo must PASS on the clean tree', r.stdout[-500:], r.stderr[-500:])
    open(f'{clean}/p.diff', 'w').write(patch)
    r = sh('git apply p.diff', cwd=clean); assert r.returncode == 0, ('patch does not apply', r.stderr)
    r = sh(f'PYTHONPATH={clean} /venv/bin/python demo.py', cwd=clean); ran.append(f'patched demo rc={r.returncode}')
    demo_out = (r.stdout + r.stderr)[-800:]
    assert r.returncode == 1, ('demo must FAIL (exit 1) on the patched tree', demo_out)
    r = sh(f'python3 /verif/tools/suite.py {clean} 16'); ran.append('suite: ' + r.stdout.strip().splitlines()[-1])
    assert r.returncode == 0, ('suite regressions', r.stdout[-1500:])
    results = {}
    for c in checks:
        r = sh(f'/venv/bin/python -m sa {c} --repo {clean} --no-evidence', cwd='/verif')
        lines = [l for l in r.stdout.splitlines() if l.startswith(('  C', 'VIOLATION', 'ANALYSIS-ERROR'))]
        results[c] = dict(rc=r.returncode, report=lines[:6])
        ran.append(f'check {c} rc={r.returncode}')
finally:
    sh(f'git -C /repo worktree remove --force {clean}')
d = f'/verif/seeded/{sid}'
os.makedirs(d, exist_ok=True)
open(f'{d}/patch.diff', 'w').write(patch)
shutil.copy(demo, f'{d}/demo.py')
json.dump(dict(id=sid, property=pid.upper(), needs=needs, ran=ran, demo_output_with_change=demo_out,
               checks=results, detected_by=[c for c, v in results.items() if v['rc'] == 1]),
          open(f'{d}/meta.json', 'w'), indent=1)
print(json.dumps(dict(id=sid, ran=ran, checks=results), indent=1))
